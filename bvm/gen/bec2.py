"""Generators / builders for BEC2 files: authentication-block lists and the matching
encryptor / decryptor objects (shared by C02, C03, C04, C06, C07)."""
import itertools

from ..refs import container, ecies

KINDS = ("cust", "ecc", "update")


def all_block_lists():
    """every non-empty ordered subset of the three block kinds (15 lists)"""
    out = []
    for r in (1, 2, 3):
        for sub in itertools.permutations(KINDS, r):
            out.append(sub)
    return out


def gen_priv(rng):
    r = rng.random()
    n = ecies.P256_N
    if r < 0.06:
        return rng.choice((1, 2, n - 2, n - 1))
    if r < 0.12:
        return 1 << rng.randrange(1, 256)
    return rng.randrange(1, n)


def gen_block_spec(rng, kind):
    if kind == "cust":
        ck = None
        if rng.random() < 0.5:
            ck = rng.randbytes(10)
            if rng.random() < 0.2:
                ck = ck[:-1] + b"\0"
        key = rng.randbytes(16)
        if rng.random() < 0.15:
            key = key[:-1] + b"\0"
        return {"kind": "cust", "key": key, "ck": ck, "pos": 0 if ck is not None else None}
    if kind == "ecc":
        return {"kind": "ecc", "sel": rng.randrange(4), "priv": gen_priv(rng)}
    code = rng.randbytes(8)
    r = rng.random()
    if r < 0.1:
        code = bytes(8)
    elif r < 0.25:
        code = code[:-1] + b"\0"
    version = rng.choice((0, 1, 0x7F, 0x80, 0xFF)) if rng.random() < 0.5 else rng.randrange(256)
    return {"kind": "update", "code": code, "version": version}


def gen_blocks(rng, kinds=None, foreign=False):
    if kinds is None:
        kinds = rng.choice(all_block_lists())
    specs = [gen_block_spec(rng, k) for k in kinds]
    if foreign:
        # blocks of kinds this library does not know (other tags): they have no decryptor by construction
        used = set()
        for _ in range(rng.choice((1, 1, 2))):
            tag = rng.choice([t for t in (4, 5, 0x10, 0x7F, 0x80, 0xFE, 0xFF) if t not in used])
            used.add(tag)
            ln = rng.choice((0, 1, 16, 127, 128, 200, 255)) if rng.random() < 0.6 else rng.randrange(0, 256)
            specs.insert(rng.randrange(len(specs) + 1), {"kind": "unknown", "tag": tag, "value": rng.randbytes(ln)})
    return specs


def spec_json(specs):
    out = []
    for s in specs:
        d = dict(s)
        for k in ("key", "ck", "code", "value"):
            if d.get(k) is not None:
                d[k] = d[k].hex()
        if "priv" in d:
            d["priv"] = hex(d["priv"])
        out.append(d)
    return out


def spec_from_json(j):
    out = []
    for d in j:
        d = dict(d)
        for k in ("key", "ck", "code", "value"):
            if d.get(k) is not None:
                d[k] = bytes.fromhex(d[k])
        if "priv" in d:
            d["priv"] = int(d["priv"], 16)
        out.append(d)
    return out


def real_auth_blocks(ns, specs):
    B = ns.bec2file
    out = []
    for s in specs:
        if s["kind"] == "cust":
            out.append(B.InitCustKeyAuthBlock())
        elif s["kind"] == "ecc":
            out.append(B.InitEccAuthBlock(s["sel"]))
        elif s["kind"] == "unknown":
            out.append(B.UnknownAuthBlock(s["tag"], s["value"]))
        else:
            out.append(B.UpdateAuthBlock(s["code"], s["version"]))
    return out


def private_key_obj(ns, priv):
    return ns.plugin.PrivateEccKeyProxy.create_from_der_fmt(ecies.sec1_der(priv))


def encryptor_for(ns, s, for_reading):
    """the encryptor object that can write (and, for_reading, open) block s; None if
    the block needs none for writing (update block has a built-in default)"""
    B = ns.bec2file
    if s["kind"] == "unknown":
        return None
    if s["kind"] == "cust":
        if s["ck"] is not None:
            return B.SoftwareCustKeyEncryptor(s["key"], s["ck"], s["pos"])
        return B.SoftwareCustKeyEncryptor(s["key"])
    if s["kind"] == "ecc":
        return B.EccDecryptor(s["sel"], private_key_obj(ns, s["priv"]))
    if for_reading:
        return B.ConfigSecurityCodeEncryptor(s["code"])
    return None


def write_encryptors(ns, specs):
    return [e for e in (encryptor_for(ns, s, False) for s in specs) if e is not None]


def read_encryptors(ns, specs, subset=None):
    """decryptors for the blocks whose index is in subset (default: all)"""
    out = []
    for i, s in enumerate(specs):
        if (subset is None or i in subset) and s["kind"] != "unknown":
            out.append(encryptor_for(ns, s, True))
    return out


def open_block_with_model(s, value):
    """independent unwrapping of a written block value -> (session key, attributes)"""
    if s["kind"] == "cust":
        payload, info = container.unwrap(s["key"], value)
        if len(payload) != 26:
            raise container.FrameError("customer-key block payload is %d bytes, expected 26" % len(payload))
        slot = payload[:10]
        want = s["ck"] if s["ck"] is not None else bytes(10)
        if slot != want:
            raise container.FrameError("customer key slot holds %s, expected %s" % (slot.hex(), want.hex()))
        return payload[10:], {"pad_zero": info["pad_zero"]}
    if s["kind"] == "update":
        payload, info = container.unwrap(container.security_code_key(s["code"]), value)
        if len(payload) != 17:
            raise container.FrameError("update block payload is %d bytes, expected 17" % len(payload))
        return payload[:16], {"version": payload[16], "pad_zero": info["pad_zero"]}
    sel, key = ecies.open_block(value, s["priv"])
    return key, {"sel": sel}


TAGS = {"cust": 1, "update": 2, "ecc": 3}


def tag_of(s):
    return s["tag"] if s["kind"] == "unknown" else TAGS[s["kind"]]


def openable(specs):
    return [i for i, s in enumerate(specs) if s["kind"] != "unknown"]
