"""Field-level assembler of BF3 binaries with MACs recomputed, and the catalogue of
structured edits (property C05): each edit breaks exactly one structural rule (or
none) so that the reader's decision can be compared with the validator's."""
from ..refs import layout as L
from ..refs import ossl


class Spec:
    """mutable field view of a BF3 binary"""

    def __init__(self, comps, key, offset=len(L.BF3_SIG), sig=L.BF3_SIG):
        self.key = key
        self.sig = sig
        self.offset = offset
        self.entries = []
        self.payloads = [c.stored(key) for c in comps]
        for c in comps:
            self.entries.append({"adr": None, "stored": None, "declared": c.declared, "pmac": None, "desc": c.desc_bytes(), "dlen": None, "elen": None, "emac": None, "mac_index": None, "pad": b""})
        self.sentinel = b"\x00"
        self.dir_extra = b""
        self.dirsize = None
        self.dirsize_delta = 0
        self.trailing = b""

    def assemble(self):
        key = self.key
        # lengths first
        raws = []
        for i, e in enumerate(self.entries):
            d = e["desc"]
            dlen = len(d) if e["dlen"] is None else e["dlen"]
            elen = (L.ENTRY_FIXED + len(d) + len(e["pad"])) if e["elen"] is None else e["elen"]
            raws.append((dlen, elen))
        dlen_total = sum(1 + L.ENTRY_FIXED + len(e["desc"]) + len(e["pad"]) for e in self.entries) + len(self.sentinel) + len(self.dir_extra)
        dirsize = (dlen_total if self.dirsize is None else self.dirsize) + self.dirsize_delta
        adr = self.offset + 4 + dlen_total
        out = [dirsize.to_bytes(4, "big")]
        for i, e in enumerate(self.entries):
            p = self.payloads[i]
            dlen, elen = raws[i]
            a = adr if e["adr"] is None else e["adr"]
            stored = len(p) if e["stored"] is None else e["stored"]
            pm = e["pmac"]
            if pm is None:
                pm = L.mac(key, p) if len(p) else bytes(16)
            body = a.to_bytes(4, "big") + stored.to_bytes(4, "big") + e["declared"].to_bytes(4, "big") + pm + bytes((dlen & 0xFF,)) + e["desc"] + e["pad"]
            em = e["emac"]
            idx = (i + 1) if e["mac_index"] is None else e["mac_index"]
            if em is None:
                em = L.mac(key, body, idx.to_bytes(16, "big"))
            elif em == "selfref":
                # entry = body | M | tail(1): a reader that MACs entry[:-16] sees body | M[0]
                em = None
                for g in range(256):
                    m = L.mac(key, body + bytes((g,)), idx.to_bytes(16, "big"))
                    if m[0] == g:
                        em = m + e["tail"]
                        break
                if em is None:
                    return None
            out.append(bytes((elen & 0xFF,)) + body + em)
            adr += len(p)
        out.append(self.sentinel)
        out.append(self.dir_extra)
        return self.sig + b"".join(out) + b"".join(self.payloads) + self.trailing


def edits_for(spec_factory, rng):
    """yields (name, expected_rule or None (= must be valid), binary, key_for_reader)
    spec_factory() returns a fresh Spec of the same valid file."""
    s = spec_factory()
    n = len(s.entries)
    key = s.key
    yield "valid", None, s.assemble(), key
    if n:
        i = rng.randrange(n)
        for name, delta in (("address_plus1", 1), ("address_minus1", -1)):
            s = spec_factory()
            good = L.parse_bf3(s.assemble(), key)
            s.entries[i]["adr"] = good[i].adr + delta
            yield name, "address_not_absolute_contiguous", s.assemble(), key
        s = spec_factory()
        good = L.parse_bf3(s.assemble(), key)
        for j in range(n):
            s.entries[j]["adr"] = good[j].adr - len(L.BF3_SIG)
        yield "address_relative_to_body", "address_not_absolute_contiguous", s.assemble(), key
        s = spec_factory()
        for j in range(n):
            s.entries[j]["adr"] = good[j].adr - good[0].adr
        yield "address_relative_to_first_payload", "address_not_absolute_contiguous", s.assemble(), key
        if n >= 2 and len(s.payloads[0]) != 0:
            s = spec_factory()
            s.entries[0]["adr"], s.entries[1]["adr"] = good[1].adr, good[0].adr
            yield "addresses_swapped", "address_not_absolute_contiguous", s.assemble(), key
        # stored length +1 / -1 (payload MAC recomputed over the extent the reader will see)
        s = spec_factory()
        whole = b"".join(s.payloads) + b"\xAA"
        start = sum(len(p) for p in s.payloads[:i])
        ext = whole[start : start + len(s.payloads[i]) + 1]
        s.entries[i]["stored"] = len(s.payloads[i]) + 1
        s.entries[i]["pmac"] = L.mac(key, ext)
        yield "stored_plus1_bytes_not_moved", "*", s.assemble(), key
        if len(s.payloads[i]) >= 2:
            s = spec_factory()
            s.entries[i]["stored"] = len(s.payloads[i]) - 1
            s.entries[i]["declared"] = min(s.entries[i]["declared"], len(s.payloads[i]) - 1)
            s.entries[i]["pmac"] = L.mac(key, s.payloads[i][:-1])
            yield "stored_minus1_bytes_not_moved", "*", s.assemble(), key
        # declared vs stored
        s = spec_factory()
        s.entries[i]["declared"] = len(s.payloads[i]) + 1
        yield "declared_exceeds_stored", "declared_exceeds_stored", s.assemble(), key
        # length fields with the top bit set (a signed 32-bit reading makes them negative)
        for nm, val in (("declared_0x80000000", 0x80000000), ("declared_0xffffffff", 0xFFFFFFFF), ("declared_0x80000000_plus_len", 0x80000000 + len(s.payloads[i]))):
            s = spec_factory()
            s.entries[i]["declared"] = val
            yield nm, "declared_exceeds_stored", s.assemble(), key
        s = spec_factory()
        s.entries[i]["stored"] = 0x80000000 + rng.randrange(16)
        s.entries[i]["declared"] = 0x80000000
        yield "stored_and_declared_top_bit_set", "*", s.assemble(), key
        s = spec_factory()
        s.entries[i]["stored"] = 0xFFFFFFFF
        yield "stored_0xffffffff", "*", s.assemble(), key
        s = spec_factory()
        s.entries[i]["declared"] = len(s.payloads[i])
        yield "declared_equals_stored", None, s.assemble(), key
        s = spec_factory()
        s.entries[i]["declared"] = 1
        yield "declared_one", None, s.assemble(), key
        # duplicate tags
        s = spec_factory()
        d = s.entries[i]["desc"]
        if len(d) + 3 <= 210:
            s.entries[i]["desc"] = bytes((0x55, 1, 1, 0x55, 1, 2)) + d if len(d) + 6 <= 210 else bytes((0x55, 0, 0x55, 0))
            yield "duplicate_tag_adjacent", "duplicate_tag", s.assemble(), key
            s = spec_factory()
            if len(d) + 6 <= 210:
                s.entries[i]["desc"] = bytes((0x55, 1, 1)) + d + bytes((0x55, 1, 1))
                yield "duplicate_tag_distant", "duplicate_tag", s.assemble(), key
        # duplicate tag whose first occurrence has an empty value / both empty
        s = spec_factory()
        d = s.entries[i]["desc"]
        if len(d) + 5 <= 210:
            s.entries[i]["desc"] = bytes((0x56, 0)) + d + bytes((0x56, 1, 7))
            yield "duplicate_tag_first_value_empty", "duplicate_tag", s.assemble(), key
            s = spec_factory()
            s.entries[i]["desc"] = d + bytes((0x57, 0, 0x57, 0))
            yield "duplicate_tag_both_values_empty", "duplicate_tag", s.assemble(), key
        # tag length running past the description
        s = spec_factory()
        s.entries[i]["desc"] = s.entries[i]["desc"][:0] + bytes((0x66, 5, 1, 2))
        yield "tag_length_past_description", "description_tlv_truncated", s.assemble(), key
        s = spec_factory()
        s.entries[i]["desc"] = bytes((0x66,))
        yield "tag_without_length_byte", "description_tlv_truncated", s.assemble(), key
        # description length byte +-1 (entry length kept consistent with the bytes present)
        s = spec_factory()
        s.entries[i]["dlen"] = len(s.entries[i]["desc"]) + 1
        yield "description_length_plus1", "*", s.assemble(), key
        if len(s.entries[i]["desc"]) >= 1:
            s = spec_factory()
            s.entries[i]["dlen"] = len(s.entries[i]["desc"]) - 1
            yield "description_length_minus1", "*", s.assemble(), key
        # entry length byte +-1
        s = spec_factory()
        s.entries[i]["elen"] = L.ENTRY_FIXED + len(s.entries[i]["desc"]) + 1
        yield "entry_length_plus1", "*", s.assemble(), key
        s = spec_factory()
        s.entries[i]["elen"] = L.ENTRY_FIXED + len(s.entries[i]["desc"]) - 1
        yield "entry_length_minus1", "*", s.assemble(), key
        # a padded entry: extra byte inside the entry after the description (MAC covers it)
        s = spec_factory()
        s.entries[i]["pad"] = b"\x00"
        yield "entry_with_extra_byte_before_mac", "entry_length_vs_description_length", s.assemble(), key
        # one extra byte after the entry MAC, the MAC chosen so that MAC(entry[:-16]) still matches
        s = spec_factory()
        s.entries[i]["emac"] = "selfref"
        s.entries[i]["tail"] = b"\x5a"
        s.entries[i]["elen"] = L.ENTRY_FIXED + len(s.entries[i]["desc"]) + 1
        s.dirsize_delta = 1
        b = s.assemble()
        if b is not None:
            # addresses move by one byte
            for j in range(n):
                s.entries[j]["adr"] = None
            s2 = spec_factory()
            s2.entries[i]["emac"] = "selfref"
            s2.entries[i]["tail"] = b"\x5a"
            s2.entries[i]["elen"] = L.ENTRY_FIXED + len(s2.entries[i]["desc"]) + 1
            s2.dirsize_delta = 1
            good = L.parse_bf3(spec_factory().assemble(), key)
            for j in range(n):
                s2.entries[j]["adr"] = good[j].adr + 1
            b = s2.assemble()
            if b is not None:
                yield "entry_extra_byte_after_mac_selfconsistent", "entry_length_vs_description_length", b, key
        # MAC index
        s = spec_factory()
        for j in range(n):
            s.entries[j]["mac_index"] = j
        yield "entry_mac_index_base0", "entry_mac", s.assemble(), key
        s = spec_factory()
        s.entries[i]["mac_index"] = i + 2
        yield "entry_mac_index_plus1", "entry_mac", s.assemble(), key
        if n >= 2:
            # entry order swapped, payloads swapped too, addresses recomputed
            s = spec_factory()
            s.entries[0], s.entries[1] = s.entries[1], s.entries[0]
            s.payloads[0], s.payloads[1] = s.payloads[1], s.payloads[0]
            yield "entries_swapped_reindexed", None, s.assemble(), key
            s = spec_factory()
            goodbin = s.assemble()
            ents = L.parse_bf3(goodbin, key)
            if len(ents[0].raw) == len(ents[1].raw) and len(ents[0].payload) == len(ents[1].payload) and ents[0].raw[4:] != ents[1].raw[4:]:
                # same sizes: swap entry bodies except the address field, keep old MACs -> wrong index
                pass
            s.entries[0], s.entries[1] = s.entries[1], s.entries[0]
            s.payloads[0], s.payloads[1] = s.payloads[1], s.payloads[0]
            s.entries[0]["mac_index"] = 2
            s.entries[1]["mac_index"] = 1
            yield "entries_swapped_not_reindexed", "entry_mac", s.assemble(), key
        # flips of stored MAC bytes
        s = spec_factory()
        b = bytearray(s.assemble())
        ents = L.parse_bf3(bytes(b), key)
        pos = len(L.BF3_SIG) + 4
        for j in range(i):
            pos += 1 + len(ents[j].raw)
        pos += 1
        b2 = bytearray(b)
        b2[pos + 12 + rng.randrange(16)] ^= 1 << rng.randrange(8)
        yield "payload_mac_bit_flip", "*", bytes(b2), key
        s2 = spec_factory()
        pm = bytearray(ents[i].pmac)
        pm[rng.randrange(16)] ^= 1 << rng.randrange(8)
        s2.entries[i]["pmac"] = bytes(pm)
        yield "payload_mac_wrong_entry_mac_recomputed", "payload_mac", s2.assemble(), key
        b2 = bytearray(b)
        b2[pos + len(ents[i].raw) - 1 - rng.randrange(16)] ^= 1 << rng.randrange(8)
        yield "entry_mac_bit_flip", "entry_mac", bytes(b2), key
        b2 = bytearray(b)
        b2[ents[i].adr + rng.randrange(len(ents[i].payload))] ^= 1 << rng.randrange(8)
        yield "payload_bit_flip", "payload_mac", bytes(b2), key
        # stored length zero
        s = spec_factory()
        s.payloads[i] = b""
        yield "stored_zero", "declared_exceeds_stored", s.assemble(), key
        # last payload loses a trailing zero byte, MAC (zero padded) still matches
        s = spec_factory()
        last = s.payloads[-1]
        if len(last) >= 2 and last[-1] == 0 and len(last) % 16 != 1:
            yield "last_payload_cut_trailing_zero_mac_still_matches", "payload_truncated", s.assemble()[:-1], key
        # wrong key
        k2 = bytearray(key)
        k2[rng.randrange(16)] ^= 1 << rng.randrange(8)
        yield "read_with_other_key", "entry_mac", spec_factory().assemble(), bytes(k2)
    # directory level
    for delta, rule in ((1, "*"), (-1, "*"), (2, "*")):
        s = spec_factory()
        s.dirsize_delta = delta
        yield "directory_size_%+d" % delta, rule, s.assemble(), key
    s = spec_factory()
    s.sentinel = b""
    yield "sentinel_omitted_sizes_consistent", "sentinel_missing", s.assemble(), key
    s = spec_factory()
    s.sentinel = b"\x00\x00"
    yield "sentinel_duplicated", "bytes_after_sentinel_in_directory", s.assemble(), key
    s = spec_factory()
    s.dir_extra = b"\x07"
    yield "byte_after_sentinel_in_directory", "bytes_after_sentinel_in_directory", s.assemble(), key
    s = spec_factory()
    s.sentinel = b"\x01"
    yield "sentinel_replaced_by_01", "*", s.assemble(), key
    for t in (b"\x00", b"\xff", b"\x00" * 16):
        s = spec_factory()
        s.trailing = t
        yield "trailing_%s" % t[:1].hex(), "trailing_bytes", s.assemble(), key
    for sig in (b"BF3\x00\x01", b"BF2\x00\x00", b"bF3\x00\x00", b"BEC2\x00"):
        s = spec_factory()
        s.sig = sig
        yield "signature_changed", "signature", s.assemble(), key
    # truncations that matter structurally
    whole = spec_factory().assemble()
    for cut, name in ((len(L.BF3_SIG), "cut_after_signature"), (len(L.BF3_SIG) + 2, "cut_inside_dirsize"), (len(L.BF3_SIG) + 4, "cut_after_dirsize"), (len(whole) - 1, "cut_last_byte")):
        if cut < len(whole):
            yield name, "*", whole[:cut], key
