"""Seeded, bin-directed generators of BF3 file contents (model level) and builders of
the real objects from them."""
from ..refs.layout import MComp

LINEBREAKS = "\n\r\x0b\x0c\x1c\x1d\x1e\x85  "
KEY_ALPHABET = "abcXYZ019 _-#.äß€Ω/\\\t\"'"
VAL_ALPHABET = "abcXYZ019 _-#.:äß€Ω/\\=\"'"

ENC_VARIANTS = [b"", b"\x00", b"\x01", b"\x03", b"\x00\x02", b"\x02\x00", b"\x00\x00\x02", b"\x02\x02", b"\xff"]
PAYLOAD_LENS = [1, 2, 15, 16, 17, 31, 32, 33, 39, 40, 41, 47, 48, 49, 79, 80, 81, 255, 256, 257]
BIG_LENS = [4095, 4096, 4097]


def rand_text(rng, alphabet, lo, hi):
    return "".join(rng.choice(alphabet) for _ in range(rng.randrange(lo, hi + 1)))


def gen_comments(rng):
    n = rng.choice((0, 0, 1, 2, 3, 6))
    out = {}
    for _ in range(n):
        r = rng.random()
        if r < 0.08:
            k = ""
        elif r < 0.5:
            k = rng.choice(("FirmwareId", "FirmwareVersion", "Configuration", "Creator", "Component0", "DeviceSettings"))
        else:
            k = rand_text(rng, KEY_ALPHABET, 1, 12)
        r = rng.random()
        if r < 0.1:
            v = ""
        elif r < 0.4:
            v = rng.choice(("1100", "2.05.01", "12345-0001-0002-03 My Config", "Yes", "a: b", "x  y"))
        else:
            v = rand_text(rng, VAL_ALPHABET, 1, 30).strip()
        out[k] = v
    items = list(out.items())
    rng.shuffle(items)
    return items


def gen_desc(rng, allow_enc_tag=False, maxbytes=None):
    """ordered tag list; total encoded size <= 210 unless maxbytes says otherwise"""
    limit = 210 if maxbytes is None else maxbytes
    n = rng.choice((0, 1, 2, 3, 4, 8))
    tags = []
    used = set()
    total = 0
    for _ in range(n):
        t = rng.choice((0xC1, 0xC3, 0xC4, 0xC5, 0xC6, 0xC7, 0xC8, 0xC9, 0xC2, 0, 1, 0xFF)) if rng.random() < 0.6 else rng.randrange(256)
        if t in used:
            continue
        r = rng.random()
        if r < 0.1:
            ln = 0
        elif r < 0.8:
            ln = rng.randrange(1, 6)
        elif r < 0.86:
            ln = rng.choice((127, 128, 129, 200))
        else:
            ln = rng.randrange(0, 80)
        if total + 2 + ln > limit:
            continue
        v = rng.randbytes(ln)
        if t == 0xC2:
            # the ENC tag on a PLAIN component: any value except the one-byte 02 (= session-key encryption)
            v = rng.choice(ENC_VARIANTS) if rng.random() < 0.8 else v
            if v == b"\x02" and not allow_enc_tag:
                v = b"\x00"
        if total + 2 + len(v) > limit:
            continue
        used.add(t)
        tags.append((t, v))
        total += 2 + len(v)
    return tags


def desc_exact(rng, nbytes):
    """tag list whose encoding is exactly nbytes long (nbytes >= 2 or 0)"""
    tags = []
    left = nbytes
    t = 10
    while left >= 2:
        ln = min(left - 2, 255, 100 if left - 2 > 100 and left - 2 - 100 >= 2 else left - 2)
        if left - 2 - ln == 1:
            ln -= 1
        tags.append((t, rng.randbytes(ln)))
        left -= 2 + ln
        t += 1
    assert left == 0, (nbytes, left)
    return tags


def gen_payload(rng, ln=None, big=False):
    if ln is None:
        r = rng.random()
        if r < 0.55:
            ln = rng.choice(PAYLOAD_LENS)
        elif r < 0.6 and big:
            ln = rng.choice(BIG_LENS)
        else:
            ln = rng.randrange(1, 51)
    r = rng.random()
    if r < 0.08:
        return bytes(ln)
    if r < 0.14:
        return b"\xff" * ln
    data = bytearray(rng.randbytes(ln))
    if r < 0.5:
        z = rng.choice((1, 1, 2, 15, 16, 17, 33))
        z = min(z, ln - 1) if ln > 1 else 0
        if z:
            data[-z:] = bytes(z)
            if ln > z and data[-z - 1] == 0:
                data[-z - 1] = 1
    return bytes(data)


def trailing_zeros(b):
    return len(b) - len(b.rstrip(b"\0"))


def gen_comp(rng, big=False):
    blob = gen_payload(rng, big=big)
    r = rng.random()
    if r < 0.5:
        declared = len(blob)
    elif r < 0.65:
        declared = 1
    elif r < 0.8:
        declared = max(1, len(blob) - 1)
    else:
        declared = rng.randrange(1, len(blob) + 1)
    return MComp(gen_desc(rng), blob, declared, False)


def gen_key(rng):
    r = rng.random()
    if r < 0.25:
        return bytes(16)
    if r < 0.35:
        return rng.randbytes(15) + b"\0"
    if r < 0.4:
        return b"\xff" * 16
    if r < 0.45:
        return rng.randbytes(13) + b"\0\0\0"
    return rng.randbytes(16)


class Case:
    def __init__(self, comments, comps):
        self.comments = comments  # list of (k, v)
        self.comps = comps  # list of MComp

    def to_json(self):
        return {
            "comments": [[k, v] for k, v in self.comments],
            "comps": [{"desc": [[t, v.hex()] for t, v in c.desc], "blob": c.blob.hex(), "declared": c.declared, "enc": c.encrypted} for c in self.comps],
        }

    @staticmethod
    def from_json(j):
        return Case(
            [(k, v) for k, v in j["comments"]],
            [MComp([(t, bytes.fromhex(v)) for t, v in c["desc"]], bytes.fromhex(c["blob"]), c["declared"], c["enc"]) for c in j["comps"]],
        )

    def digest_parts(self):
        return (self.comments, [(c.desc, c.blob, c.declared, c.encrypted) for c in self.comps])


def gen_case(rng, big=False, ncomp=None):
    if ncomp is None:
        ncomp = rng.choice((0, 1, 1, 2, 3, 5))
    return Case(gen_comments(rng), [gen_comp(rng, big) for _ in range(ncomp)])


def build_real(ns, case, explicit_len=True):
    BF = ns.bf3file
    comps = []
    for c in case.comps:
        desc = dict(c.desc)
        if c.encrypted:
            comps.append(BF.Bf3Component(desc, c.blob, c.declared, encrypt_by_session_key=True))
        elif c.declared == len(c.blob) and not explicit_len:
            comps.append(BF.Bf3Component(desc, c.blob))
        else:
            comps.append(BF.Bf3Component(desc, c.blob, c.declared))
    return BF.Bf3File(dict(case.comments), comps)


def diff_file(obj, case, content_upto_declared_for_encrypted=True):
    """differences between a real Bf3File read back and the model case ([] = same)"""
    out = []
    if dict(obj.comments) != dict(case.comments):
        out.append("comments")
    if len(obj.components) != len(case.comps):
        out.append("component_count")
        return out
    for i, (rc, mc) in enumerate(zip(obj.components, case.comps)):
        if dict(rc.description) != dict(mc.desc):
            out.append("description[%d]" % i)
        if rc.actual_len != mc.declared:
            out.append("declared_length[%d]" % i)
        if bool(rc.encrypt_by_session_key) != bool(mc.encrypted):
            out.append("encryption_flag[%d]" % i)
        if mc.encrypted:
            if bytes(rc.blob[: mc.declared]) != mc.blob[: mc.declared]:
                out.append("content_up_to_declared_length[%d]" % i)
            elif bytes(rc.blob[len(mc.blob) :]).strip(b"\0") != b"":
                out.append("padding_not_zero[%d]" % i)
        elif bytes(rc.blob) != mc.blob:
            out.append("blob[%d]" % i)
    return out
