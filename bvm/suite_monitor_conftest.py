"""conftest.py dropped into a SCRATCH COPY of the repository's vendored ecdsa package
(never into /repo): runs the repository's own hypothesis-driven tests with a group-law
monitor wrapped around PointJacobi.__add__ / double / __mul__ / mul_add.  Every
operation on one of the shipped short-Weierstrass curves is compared with an affine
chord-tangent reference (add, double) or OpenSSL (scalar multiplication, mul_add).
Counts and violations are written to $BVM_MONITOR_OUT at interpreter exit."""
import atexit
import json
import os
import sys

sys.path.insert(0, os.environ.get("BVM_VERIF", "/verif"))
from bvm.refs import ossl  # noqa: E402

from . import curves as _curves  # noqa: E402
from . import ellipticcurve as EC  # noqa: E402

PJ = EC.PointJacobi
INF = EC.INFINITY
STATS = {"add": 0, "double": 0, "mul": 0, "mul_add": 0, "skipped_other_curve": 0, "violations": []}
NAMES = {}
for _c in _curves.curves:
    if _c.name not in ("Ed25519", "Ed448"):
        NAMES[(int(_c.curve.p()), int(_c.curve.a()) % int(_c.curve.p()), int(_c.curve.b()) % int(_c.curve.p()))] = (_c.openssl_name, int(_c.order), int(_c.curve.cofactor() or 1))


def _key(pt):
    c = pt.curve()
    p = int(c.p())
    return NAMES.get((p, int(c.a()) % p, int(c.b()) % p)), p, int(c.a())


def _aff(pt, p):
    if pt is INF or pt == INF:
        return None
    return (int(pt.x()) % p, int(pt.y()) % p)


def _add(P, Q, p, a):
    if P is None:
        return Q
    if Q is None:
        return P
    if P[0] == Q[0]:
        if (P[1] + Q[1]) % p == 0:
            return None
        l = (3 * P[0] * P[0] + a) * pow(2 * P[1], -1, p) % p
    else:
        l = (Q[1] - P[1]) * pow(Q[0] - P[0], -1, p) % p
    x = (l * l - P[0] - Q[0]) % p
    return x, (l * (P[0] - x) - P[1]) % p


def _smul(A, k, info, p, a):
    """k*A for ANY point A of the curve.  Cofactor 1: every point has order n, OpenSSL with k mod n.  Cofactor > 1 (SECP112r2):
    the tests also feed points outside the prime-order subgroup, for which reducing k mod n is wrong - exact affine
    double-and-add with the full scalar instead."""
    n, h = info[1], info[2]
    if A is None:
        return None
    if h == 1:
        return None if k % n == 0 else ossl.point_mul(info[0], None, A, k % n)
    k %= n * h
    R, Q = None, A
    while k:
        if k & 1:
            R = _add(R, Q, p, a)
        Q = _add(Q, Q, p, a)
        k >>= 1
    return R


def _viol(what, detail):
    if len(STATS["violations"]) < 20:
        STATS["violations"].append({"what": what, "detail": {k: (hex(v) if isinstance(v, int) else repr(v)[:200]) for k, v in detail.items()}})
    STATS["n_violations"] = STATS.get("n_violations", 0) + 1


_busy = [0]
_orig_add, _orig_double, _orig_mul, _orig_mul_add = PJ.__add__, PJ.double, PJ.__mul__, PJ.mul_add


def w_add(self, other):
    if _busy[0] or not isinstance(other, (PJ, EC.Point)) or other is INF:
        return _orig_add(self, other)
    info, p, a = _key(self)
    if info is None or other.curve() != self.curve():
        STATS["skipped_other_curve"] += 1
        return _orig_add(self, other)
    _busy[0] += 1
    try:
        A, B = _aff(self, p), _aff(other, p)
        res = _orig_add(self, other)
        got = _aff(res, p)
    finally:
        _busy[0] -= 1
    STATS["add"] += 1
    want = _add(A, B, p, a)
    if got != want:
        _viol("add", {"curve": info[0], "P": A, "Q": B, "got": got, "expected": want})
    return res


def w_double(self):
    if _busy[0]:
        return _orig_double(self)
    info, p, a = _key(self)
    if info is None:
        STATS["skipped_other_curve"] += 1
        return _orig_double(self)
    _busy[0] += 1
    try:
        A = _aff(self, p)
        res = _orig_double(self)
        got = _aff(res, p)
    finally:
        _busy[0] -= 1
    STATS["double"] += 1
    want = _add(A, A, p, a)
    if got != want:
        _viol("double", {"curve": info[0], "P": A, "got": got, "expected": want})
    return res


def w_mul(self, other):
    if _busy[0] or not isinstance(other, int) and not hasattr(other, "__index__"):
        return _orig_mul(self, other)
    info, p, a = _key(self)
    if info is None:
        STATS["skipped_other_curve"] += 1
        return _orig_mul(self, other)
    _busy[0] += 1
    try:
        A = _aff(self, p)
        res = _orig_mul(self, other)
        got = _aff(res, p)
    finally:
        _busy[0] -= 1
    STATS["mul"] += 1
    k = int(other)
    try:
        want = _smul(A, k, info, p, a)
    except ossl.OsslError:
        return res  # operand not on the curve: a test feeding garbage, nothing to compare
    if got != want:
        _viol("mul", {"curve": info[0], "P": A, "k": k, "got": got, "expected": want})
    return res


def w_mul_add(self, self_mul, other, other_mul):
    if _busy[0]:
        return _orig_mul_add(self, self_mul, other, other_mul)
    info, p, a = _key(self)
    if info is None:
        STATS["skipped_other_curve"] += 1
        return _orig_mul_add(self, self_mul, other, other_mul)
    _busy[0] += 1
    try:
        A = _aff(self, p)
        B = _aff(other, p) if other is not INF else None
        res = _orig_mul_add(self, self_mul, other, other_mul)
        got = _aff(res, p)
    finally:
        _busy[0] -= 1
    STATS["mul_add"] += 1
    n = info[1]
    try:
        t1 = _smul(A, int(self_mul), info, p, a)
        t2 = _smul(B, int(other_mul), info, p, a)
    except ossl.OsslError:
        return res
    want = _add(t1, t2, p, a)
    if got != want:
        _viol("mul_add", {"curve": info[0], "P": A, "Q": B, "k1": int(self_mul), "k2": int(other_mul), "got": got, "expected": want})
    return res


PJ.__add__ = w_add
PJ.__radd__ = lambda self, other: w_add(self, other)
PJ.double = w_double
PJ.__mul__ = w_mul
PJ.__rmul__ = lambda self, other: w_mul(self, other)
PJ.mul_add = w_mul_add


def _dump():
    out = os.environ.get("BVM_MONITOR_OUT")
    if out:
        with open(out, "w") as f:
            json.dump(STATS, f)


atexit.register(_dump)
