"""RFC 6979 deterministic nonce generation (section 3.2), written from the RFC text.
Anchored to the appendix A.2.5 vectors (P-256, SHA-256, messages 'sample' / 'test')."""
import hashlib
import hmac


def bits2int(b, qlen):
    v = int.from_bytes(b, "big")
    blen = len(b) * 8
    if blen > qlen:
        v >>= blen - qlen
    return v


def int2octets(x, rolen):
    return x.to_bytes(rolen, "big")


def bits2octets(b, q, qlen, rolen):
    z1 = bits2int(b, qlen)
    z2 = z1 - q
    return int2octets(z2 if z2 >= 0 else z1, rolen)


def nonces(q, x, h1, hashfunc, extra=b"", stats=None):
    """generator of candidate nonces k (the first one in [1, q-1] is used unless r or s is 0).
    extra = additional data k' of section 3.6: appended to the HMAC input in steps d and f ONLY (not in
    the retry step h.3).  stats["rejected"] counts candidates outside [1, q-1]."""
    qlen = q.bit_length()
    rolen = (qlen + 7) // 8
    hlen = hashfunc().digest_size
    V = b"\x01" * hlen
    K = b"\x00" * hlen
    mac = lambda k, m: hmac.new(k, m, hashfunc).digest()
    bx = int2octets(x, rolen) + bits2octets(h1, q, qlen, rolen) + extra
    K = mac(K, V + b"\x00" + bx)
    V = mac(K, V)
    K = mac(K, V + b"\x01" + bx)
    V = mac(K, V)
    while True:
        T = b""
        while len(T) * 8 < qlen:
            V = mac(K, V)
            T += V
        k = bits2int(T, qlen)
        if 1 <= k < q:
            yield k
        elif stats is not None:
            stats["rejected"] = stats.get("rejected", 0) + 1
        K = mac(K, V + b"\x00")
        V = mac(K, V)


def first_nonce(q, x, h1, hashfunc):
    return next(nonces(q, x, h1, hashfunc))


def first_nonce_stats(q, x, h1, hashfunc, extra, stats):
    return next(nonces(q, x, h1, hashfunc, extra, stats))


def sign(q, x, h1, hashfunc, point_mul_x, extra=b"", stats=None):
    """-> (r, s); point_mul_x(k) returns the affine x coordinate of k*G"""
    z = bits2int(h1, q.bit_length())
    for k in nonces(q, x, h1, hashfunc, extra, stats):
        r = point_mul_x(k) % q
        if r == 0:
            continue
        s = pow(k, -1, q) * (z + r * x) % q
        if s == 0:
            continue
        return r, s, k


# ---- anchors: RFC 6979 A.2.5 (NIST P-256) ------------------------------------------------
P256_Q = 0xFFFFFFFF00000000FFFFFFFFFFFFFFFFBCE6FAADA7179E84F3B9CAC2FC632551
P256_X = 0xC9AFA9D845BA75166B5C215767B1D6934E50C3DB36E89B127B8A622B120F6721
VECTORS = {
    b"sample": (
        0xA6E3C57DD01ABE90086538398355DD4C3B17AA873382B0F24D6129493D8AAD60,
        0xEFD48B2AACB6A8FD1140DD9CD45E81D69D2C877B56AAF991C34D0EA84EAF3716,
        0xF7CB1C942D657C41D436C7A1B6E29F65F3E900DBB9AFF4064DC4AB2F843ACDA8,
    ),
    b"test": (
        0xD16B6AE827F17175E040871A1C7EC3500192C4C92677336EC2537ACAEE0008E0,
        0xF1ABB023518351CD71D881567B1EA663ED3EFCF6C5132B354F28D3B0B7D38367,
        0x019F4113742A2B14BD25926B49C649155F267E60D3814B4C0CC84250E46F0083,
    ),
}
for _m, (_k, _r, _s) in VECTORS.items():
    assert first_nonce(P256_Q, P256_X, hashlib.sha256(_m).digest(), hashlib.sha256) == _k, "RFC 6979 anchor vector mismatch for %r" % _m
