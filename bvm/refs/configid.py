"""Independent model of configuration identifiers (property C12).

Identifier = (customer, project, device, version, name); 9999 is the 'unknown'
code for customer / project / device and is represented as None.
Text forms:  'CCCCC-PPPP-DDDD-VV[ name]'   (numeric scheme; unknown printed as 9999)
             'name (version VV)'           (name-only)
"""
UNKNOWN = 9999

NAMING_KEY = 0x0620
V_CUSTOMER, V_DEVICE, V_DEVNAME, V_DEVVER, V_PROJECT, V_PRJNAME, V_PRJVER = 1, 2, 3, 4, 5, 6, 7


def norm(v):
    return None if v == UNKNOWN else v


def fmt(customer, project, device, version, name):
    if norm(customer) is not None:
        p = UNKNOWN if norm(project) is None else project
        d = UNKNOWN if norm(device) is None else device
        s = "%05d-%04d-%04d-%02d" % (customer, p, d, version)
        return s + (" " + name if name else "")
    return "%s (version %02d)" % (name, version)


def _digits(s, n):
    return len(s) == n and all(c in "0123456789" for c in s)


def looks_numeric_prefix(text):
    """does the text start like a numeric identifier 'ddddd-dddd-dddd-dd' ?"""
    return (
        len(text) >= 18
        and _digits(text[0:5], 5)
        and text[5] == "-"
        and _digits(text[6:10], 4)
        and text[10] == "-"
        and _digits(text[11:15], 4)
        and text[15] == "-"
        and _digits(text[16:18], 2)
    )


def parse(text):
    """-> (customer, project, device, version, name) for canonical text, else None.
    Only canonical forms are recognised (whole string)."""
    if looks_numeric_prefix(text):
        rest = text[18:]
        if rest == "":
            name = None
        elif rest[0] == " ":
            name = rest[1:]
        else:
            return None
        return (norm(int(text[0:5])), norm(int(text[6:10])), norm(int(text[11:15])), int(text[16:18]), name)
    if text.endswith(")") and len(text) >= 14:
        tail = text[-13:]
        if tail[:10] == " (version " and _digits(tail[10:12], 2) and len(text) > 13:
            return (None, None, None, int(tail[10:12]), text[:-13])
    return None


def surely_unparsable(text):
    """True when no reading of the two documented forms could apply: the text neither
    starts like a numeric id nor contains ' (version dd)' anywhere"""
    if looks_numeric_prefix(text):
        return False
    if any(ch.isdigit() and ch not in "0123456789" for ch in text):
        return False  # non-ASCII digits: whether they count as digits is not stated
    i = text.find(" (version ")
    while i != -1:
        t = text[i + 10 : i + 13]
        if len(t) == 3 and _digits(t[:2], 2) and t[2] == ")":
            return False
        i = text.find(" (version ", i + 1)
    if "\n" in text or "\r" in text:
        return False  # multi-line text: not judged
    return True


class Missing(Exception):
    pass


def from_prj(conf):
    """-> tuple or raises Missing"""
    g = lambda v: conf.get((NAMING_KEY, v))
    if g(V_PRJVER) is None:
        raise Missing("version")
    version = int.from_bytes(g(V_PRJVER), "big")
    name = g(V_PRJNAME).decode("utf-8") if g(V_PRJNAME) is not None else None
    if g(V_CUSTOMER) is not None and g(V_PROJECT) is not None:
        dev = int.from_bytes(g(V_DEVICE), "big") if g(V_DEVICE) is not None else 0
        return (int.from_bytes(g(V_CUSTOMER), "big"), int.from_bytes(g(V_PROJECT), "big"), dev, version, name)
    if not name:
        raise Missing("name")
    return (None, None, None, version, name)


def from_dev(conf):
    g = lambda v: conf.get((NAMING_KEY, v))
    if g(V_DEVVER) is None:
        raise Missing("version")
    version = int.from_bytes(g(V_DEVVER), "big")
    name = g(V_DEVNAME).decode("utf-8") if g(V_DEVNAME) is not None else None
    if g(V_CUSTOMER) is not None:
        dev = int.from_bytes(g(V_DEVICE), "big") if g(V_DEVICE) is not None else 0
        return (int.from_bytes(g(V_CUSTOMER), "big"), 0, dev, version, name)
    if not name:
        raise Missing("name")
    return (None, None, None, version, name)
