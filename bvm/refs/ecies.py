"""Independent model of the ECC authentication block (property C09):

    value = selector | 04 | X(32) | Y(32) | AES-128-CBC_{SHA-256(ECDH x)[:16], IV=0}(session key)

ECDH and the point checks come from OpenSSL (P-256 = prime256v1)."""
import hashlib

from . import ossl

CURVE = "prime256v1"
P256_P = 0xFFFFFFFF00000001000000000000000000000000FFFFFFFFFFFFFFFFFFFFFFFF
P256_N = 0xFFFFFFFF00000000FFFFFFFFFFFFFFFFBCE6FAADA7179E84F3B9CAC2FC632551
P256_B = 0x5AC635D8AA3A93E7B3EBBD55769886BC651D06B0CC53B0F63BCE3C3E27D2604B
SPKI_HEADER = bytes.fromhex("3059301306072A8648CE3D020106082A8648CE3D03010703420004")


class EciesError(Exception):
    pass


def on_curve(x, y):
    return 0 <= x < P256_P and 0 <= y < P256_P and (y * y - (x * x * x - 3 * x + P256_B)) % P256_P == 0


def parse_block(value):
    """-> (selector, (X, Y), ciphertext)"""
    if len(value) != 1 + 1 + 64 + 16:
        raise EciesError("length %d, expected 82" % len(value))
    if value[1] != 4:
        raise EciesError("point marker %02x" % value[1])
    x = int.from_bytes(value[2:34], "big")
    y = int.from_bytes(value[34:66], "big")
    if not on_curve(x, y) or not ossl.is_on_curve(CURVE, (x, y)):
        raise EciesError("ephemeral point not on P-256")
    return value[0], (x, y), value[66:]


def kdf(shared_x_bytes):
    return hashlib.sha256(shared_x_bytes).digest()[:16]


def open_block(value, recipient_priv):
    sel, pt, ct = parse_block(value)
    k = kdf(ossl.ecdh(CURVE, recipient_priv, pt))
    return sel, ossl.aes_cbc(k, ossl.ZERO_IV, ct, False)


def make_block(sel, eph_priv, recipient_pub, session_key):
    """what the block must be when the ephemeral private key is eph_priv"""
    ex, ey = ossl.point_mul(CURVE, eph_priv)
    k = kdf(ossl.ecdh(CURVE, eph_priv, recipient_pub))
    return bytes((sel, 4)) + ex.to_bytes(32, "big") + ey.to_bytes(32, "big") + ossl.aes_cbc(k, ossl.ZERO_IV, ossl.pad0(session_key), True)


def pub_of(priv):
    return ossl.point_mul(CURVE, priv)


def sec1_der(priv):
    return ossl.priv_to_sec1(CURVE, priv)


def spki_der(pub):
    return SPKI_HEADER + pub[0].to_bytes(32, "big") + pub[1].to_bytes(32, "big")


def published_key(der):
    """(x, y) of a published recipient key given as SPKI DER, parsed by OpenSSL"""
    return ossl.parse_spki(der)
