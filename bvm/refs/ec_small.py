"""Textbook affine arithmetic on short-Weierstrass curves y^2 = x^3 + a x + b over F_p
(None = point at infinity), brute-force point enumeration and a search for small
curves of prime order.  Independent of the library under test."""


def is_prime(n):
    if n < 2:
        return False
    i = 2
    while i * i <= n:
        if n % i == 0:
            return False
        i += 1
    return True


def points(p, a, b):
    sq = {}
    for y in range(p):
        sq.setdefault(y * y % p, []).append(y)
    out = []
    for x in range(p):
        for y in sq.get((x * x * x + a * x + b) % p, []):
            out.append((x, y))
    return out


def add(P, Q, p, a):
    if P is None:
        return Q
    if Q is None:
        return P
    x1, y1 = P
    x2, y2 = Q
    if x1 == x2:
        if (y1 + y2) % p == 0:
            return None
        l = (3 * x1 * x1 + a) * pow(2 * y1, -1, p) % p
    else:
        l = (y2 - y1) * pow(x2 - x1, -1, p) % p
    x3 = (l * l - x1 - x2) % p
    return x3, (l * (x1 - x3) - y1) % p


def neg(P, p):
    return None if P is None else (P[0], (-P[1]) % p)


def mul(k, P, p, a):
    if k < 0:
        return mul(-k, neg(P, p), p, a)
    R = None
    Q = P
    while k:
        if k & 1:
            R = add(R, Q, p, a)
        Q = add(Q, Q, p, a)
        k >>= 1
    return R


def prime_order_curves(pmax, pmin=5):
    """all (p, a, b, n) with p prime in [pmin, pmax], non-singular, group order n prime and >= 5"""
    out = []
    for p in range(pmin, pmax + 1):
        if not is_prime(p):
            continue
        for a in range(p):
            for b in range(p):
                if (4 * a * a * a + 27 * b * b) % p == 0:
                    continue
                n = len(points(p, a, b)) + 1
                if n >= 5 and is_prime(n):
                    out.append((p, a, b, n))
    return out


def multiplication_table(p, a, b):
    """group elements (None first) and a dict-based addition table"""
    els = [None] + points(p, a, b)
    idx = {e: i for i, e in enumerate(els)}
    tab = [[idx[add(P, Q, p, a)] for Q in els] for P in els]
    return els, idx, tab
