"""Independent crypto oracle: the system OpenSSL (libcrypto.so.3) through ctypes.

AES: EVP ciphers with padding disabled.  EC: low-level EC_KEY / EC_POINT / ECDSA
API (deprecated in 3.x but exported), which takes raw integers and digests so
that nothing of the code under test is needed to talk to it.
"""
import ctypes
import ctypes.util
from ctypes import POINTER, byref, c_char_p, c_int, c_long, c_size_t, c_ubyte, c_void_p

_lib = None


class OsslError(Exception):
    pass


def lib():
    global _lib
    if _lib is not None:
        return _lib
    last = None
    for name in ("libcrypto.so.3", ctypes.util.find_library("crypto")):
        if not name:
            continue
        try:
            _lib = ctypes.CDLL(name)
            break
        except OSError as e:
            last = e
    if _lib is None:
        raise OsslError("libcrypto not available: %r" % (last,))
    L = _lib
    vp = c_void_p
    sigs = {
        "EVP_CIPHER_CTX_new": (vp, []),
        "EVP_CIPHER_CTX_free": (None, [vp]),
        "EVP_CipherInit_ex": (c_int, [vp, vp, vp, c_char_p, c_char_p, c_int]),
        "EVP_CIPHER_CTX_set_padding": (c_int, [vp, c_int]),
        "EVP_CipherUpdate": (c_int, [vp, c_char_p, POINTER(c_int), c_char_p, c_int]),
        "EVP_CipherFinal_ex": (c_int, [vp, c_char_p, POINTER(c_int)]),
        "OBJ_sn2nid": (c_int, [c_char_p]),
        "OBJ_txt2nid": (c_int, [c_char_p]),
        "EC_GROUP_new_by_curve_name": (vp, [c_int]),
        "EC_GROUP_free": (None, [vp]),
        "EC_GROUP_get0_order": (vp, [vp]),
        "EC_POINT_new": (vp, [vp]),
        "EC_POINT_free": (None, [vp]),
        "EC_POINT_mul": (c_int, [vp, vp, vp, vp, vp, vp]),
        "EC_POINT_add": (c_int, [vp, vp, vp, vp, vp]),
        "EC_POINT_is_at_infinity": (c_int, [vp, vp]),
        "EC_POINT_is_on_curve": (c_int, [vp, vp, vp]),
        "EC_POINT_set_affine_coordinates": (c_int, [vp, vp, vp, vp, vp]),
        "EC_POINT_get_affine_coordinates": (c_int, [vp, vp, vp, vp, vp]),
        "EC_POINT_point2oct": (c_size_t, [vp, vp, c_int, c_char_p, c_size_t, vp]),
        "EC_POINT_oct2point": (c_int, [vp, vp, c_char_p, c_size_t, vp]),
        "BN_new": (vp, []),
        "BN_free": (None, [vp]),
        "BN_bin2bn": (vp, [c_char_p, c_int, vp]),
        "BN_bn2bin": (c_int, [vp, c_char_p]),
        "BN_num_bits": (c_int, [vp]),
        "BN_CTX_new": (vp, []),
        "BN_CTX_free": (None, [vp]),
        "EC_KEY_new_by_curve_name": (vp, [c_int]),
        "EC_KEY_free": (None, [vp]),
        "EC_KEY_set_private_key": (c_int, [vp, vp]),
        "EC_KEY_set_public_key": (c_int, [vp, vp]),
        "EC_KEY_get0_private_key": (vp, [vp]),
        "EC_KEY_get0_public_key": (vp, [vp]),
        "EC_KEY_get0_group": (vp, [vp]),
        "EC_KEY_check_key": (c_int, [vp]),
        "EC_KEY_set_asn1_flag": (None, [vp, c_int]),
        "EC_KEY_set_conv_form": (None, [vp, c_int]),
        "ECDSA_do_sign": (vp, [c_char_p, c_int, vp]),
        "ECDSA_do_verify": (c_int, [c_char_p, c_int, vp, vp]),
        "ECDSA_SIG_new": (vp, []),
        "ECDSA_SIG_free": (None, [vp]),
        "ECDSA_SIG_get0_r": (vp, [vp]),
        "ECDSA_SIG_get0_s": (vp, [vp]),
        "ECDSA_SIG_set0": (c_int, [vp, vp, vp]),
        "ECDSA_verify": (c_int, [c_int, c_char_p, c_int, c_char_p, c_int, vp]),
        "ECDH_compute_key": (c_int, [c_char_p, c_size_t, vp, vp, vp]),
        "d2i_PUBKEY": (vp, [vp, POINTER(c_char_p), c_long]),
        "d2i_AutoPrivateKey": (vp, [vp, POINTER(c_char_p), c_long]),
        "d2i_ECPrivateKey": (vp, [vp, POINTER(c_char_p), c_long]),
        "i2d_PUBKEY": (c_int, [vp, POINTER(POINTER(c_ubyte))]),
        "i2d_ECPrivateKey": (c_int, [vp, POINTER(POINTER(c_ubyte))]),
        "i2d_EC_PUBKEY": (c_int, [vp, POINTER(POINTER(c_ubyte))]),
        "i2d_PrivateKey": (c_int, [vp, POINTER(POINTER(c_ubyte))]),
        "i2d_PKCS8PrivateKey_bio": (c_int, [vp, vp, vp, c_char_p, c_int, vp, vp]),
        "EVP_PKEY_free": (None, [vp]),
        "EVP_PKEY_new": (vp, []),
        "EVP_PKEY_get1_EC_KEY": (vp, [vp]),
        "EVP_PKEY_set1_EC_KEY": (c_int, [vp, vp]),
        "EVP_PKEY_get_base_id": (c_int, [vp]),
        "CRYPTO_free": (None, [vp, c_char_p, c_int]),
        "ERR_clear_error": (None, []),
        "OpenSSL_version": (c_char_p, [c_int]),
        "BIO_new": (vp, [vp]),
        "BIO_s_mem": (vp, []),
        "BIO_free": (c_int, [vp]),
        "BIO_ctrl": (c_long, [vp, c_int, c_long, vp]),
    }
    for name, (res, args) in sigs.items():
        try:
            fn = getattr(L, name)
        except AttributeError:
            continue
        fn.restype = res
        fn.argtypes = args
    for cname in (
        "EVP_aes_128_ecb EVP_aes_192_ecb EVP_aes_256_ecb EVP_aes_128_cbc EVP_aes_192_cbc EVP_aes_256_cbc "
        "EVP_aes_128_cfb8 EVP_aes_192_cfb8 EVP_aes_256_cfb8 EVP_aes_128_cfb128 EVP_aes_192_cfb128 EVP_aes_256_cfb128 "
        "EVP_aes_128_ofb EVP_aes_192_ofb EVP_aes_256_ofb EVP_aes_128_ctr EVP_aes_192_ctr EVP_aes_256_ctr"
    ).split():
        fn = getattr(L, cname)
        fn.restype = c_void_p
        fn.argtypes = []
    return L


def version():
    return lib().OpenSSL_version(0).decode()


# ---------------------------------------------------------------------- AES
def _cipher(name, key, iv, data, enc):
    L = lib()
    ciph = getattr(L, "EVP_aes_%d_%s" % (len(key) * 8, name))()
    ctx = L.EVP_CIPHER_CTX_new()
    try:
        if L.EVP_CipherInit_ex(ctx, ciph, None, bytes(key), bytes(iv) if iv is not None else None, 1 if enc else 0) != 1:
            raise OsslError("CipherInit")
        L.EVP_CIPHER_CTX_set_padding(ctx, 0)
        out = ctypes.create_string_buffer(len(data) + 32)
        n = c_int(0)
        if L.EVP_CipherUpdate(ctx, out, byref(n), bytes(data), len(data)) != 1:
            raise OsslError("CipherUpdate")
        n2 = c_int(0)
        tail = ctypes.create_string_buffer(32)
        if L.EVP_CipherFinal_ex(ctx, tail, byref(n2)) != 1:
            raise OsslError("CipherFinal (data not block aligned?)")
        return out.raw[: n.value] + tail.raw[: n2.value]
    finally:
        L.EVP_CIPHER_CTX_free(ctx)


def aes_ecb(key, data, enc=True):
    return _cipher("ecb", key, None, data, enc)


def aes_cbc(key, iv, data, enc=True):
    return _cipher("cbc", key, iv, data, enc)


def aes_cfb8(key, iv, data, enc=True):
    return _cipher("cfb8", key, iv, data, enc)


def aes_cfb128(key, iv, data, enc=True):
    return _cipher("cfb128", key, iv, data, enc)


def aes_ofb(key, iv, data, enc=True):
    return _cipher("ofb", key, iv, data, enc)


def aes_ctr(key, counter_block, data, enc=True):
    return _cipher("ctr", key, counter_block, data, enc)


ZERO_IV = bytes(16)


def pad0(data):
    return bytes(data) + bytes(-len(data) % 16)


def cbc_mac(key, data, iv=ZERO_IV):
    """last block of AES-128-CBC over the zero-padded data (the BF3 'CMAC')."""
    d = pad0(data)
    if not d:
        raise OsslError("MAC of empty data undefined")
    return aes_cbc(key, iv, d)[-16:]


# ---------------------------------------------------------------------- EC
def _bn(i):
    L = lib()
    b = i.to_bytes((i.bit_length() + 7) // 8 or 1, "big")
    return L.BN_bin2bn(b, len(b), None)


def _bn2int(bn):
    L = lib()
    n = (L.BN_num_bits(bn) + 7) // 8
    buf = ctypes.create_string_buffer(n or 1)
    L.BN_bn2bin(bn, buf)
    return int.from_bytes(buf.raw[:n], "big")


_groups = {}


def nid(name):
    L = lib()
    n = L.OBJ_sn2nid(name.encode())
    if n == 0:
        n = L.OBJ_txt2nid(name.encode())
    if n == 0:
        raise OsslError("unknown curve " + name)
    return n


def group(name):
    if name not in _groups:
        g = lib().EC_GROUP_new_by_curve_name(nid(name))
        if not g:
            raise OsslError("no group " + name)
        _groups[name] = g
    return _groups[name]


def order(name):
    return _bn2int(lib().EC_GROUP_get0_order(group(name)))


def _mkpoint(g, xy):
    L = lib()
    P = L.EC_POINT_new(g)
    if xy is not None:
        x, y = _bn(xy[0]), _bn(xy[1])
        try:
            if L.EC_POINT_set_affine_coordinates(g, P, x, y, None) != 1:
                L.EC_POINT_free(P)
                L.ERR_clear_error()
                raise OsslError("point not on curve")
        finally:
            L.BN_free(x)
            L.BN_free(y)
    return P


def _affine(g, P):
    L = lib()
    if L.EC_POINT_is_at_infinity(g, P):
        return None
    x, y = L.BN_new(), L.BN_new()
    try:
        if L.EC_POINT_get_affine_coordinates(g, P, x, y, None) != 1:
            raise OsslError("get_affine")
        return _bn2int(x), _bn2int(y)
    finally:
        L.BN_free(x)
        L.BN_free(y)


def point_mul(curve, k_gen, point=None, k_point=None):
    """k_gen*G + k_point*point -> (x, y) or None for infinity. Scalars are
    reduced mod n first (OpenSSL wants non-negative BIGNUMs)."""
    L = lib()
    g = group(curve)
    n = order(curve)
    R = L.EC_POINT_new(g)
    kg = _bn(k_gen % n) if k_gen is not None else None
    P = kp = None
    try:
        if point is not None:
            P = _mkpoint(g, point)
            kp = _bn(k_point % n)
        if L.EC_POINT_mul(g, R, kg, P, kp, None) != 1:
            raise OsslError("EC_POINT_mul")
        return _affine(g, R)
    finally:
        L.EC_POINT_free(R)
        if P:
            L.EC_POINT_free(P)
        if kg:
            L.BN_free(kg)
        if kp:
            L.BN_free(kp)


def point_add(curve, p1, p2):
    L = lib()
    g = group(curve)
    A = _mkpoint(g, p1)
    B = _mkpoint(g, p2)
    R = L.EC_POINT_new(g)
    try:
        if L.EC_POINT_add(g, R, A, B, None) != 1:
            raise OsslError("EC_POINT_add")
        return _affine(g, R)
    finally:
        for p in (A, B, R):
            L.EC_POINT_free(p)


def is_on_curve(curve, xy):
    try:
        g = group(curve)
        P = _mkpoint(g, xy)
    except OsslError:
        return False
    lib().EC_POINT_free(P)
    return True


def _mkkey(curve, priv=None, pub=None):
    L = lib()
    k = L.EC_KEY_new_by_curve_name(nid(curve))
    if not k:
        raise OsslError("EC_KEY_new")
    g = group(curve)
    if priv is not None:
        b = _bn(priv)
        L.EC_KEY_set_private_key(k, b)
        L.BN_free(b)
        if pub is None:
            pub = point_mul(curve, priv)
    if pub is not None:
        P = _mkpoint(g, pub)
        r = L.EC_KEY_set_public_key(k, P)
        L.EC_POINT_free(P)
        if r != 1:
            L.EC_KEY_free(k)
            raise OsslError("set_public_key")
    return k


def ecdsa_sign(curve, priv, digest):
    """-> (r, s) with OpenSSL's own random nonce"""
    L = lib()
    k = _mkkey(curve, priv=priv)
    try:
        sig = L.ECDSA_do_sign(bytes(digest), len(digest), k)
        if not sig:
            raise OsslError("ECDSA_do_sign")
        try:
            return _bn2int(L.ECDSA_SIG_get0_r(sig)), _bn2int(L.ECDSA_SIG_get0_s(sig))
        finally:
            L.ECDSA_SIG_free(sig)
    finally:
        L.EC_KEY_free(k)


def ecdsa_verify(curve, pub, digest, r, s):
    L = lib()
    k = _mkkey(curve, pub=pub)
    try:
        sig = L.ECDSA_SIG_new()
        L.ECDSA_SIG_set0(sig, _bn(r), _bn(s))
        try:
            res = L.ECDSA_do_verify(bytes(digest), len(digest), sig, k)
            L.ERR_clear_error()
            return res == 1
        finally:
            L.ECDSA_SIG_free(sig)
    finally:
        L.EC_KEY_free(k)


def ecdsa_verify_der(curve, pub, digest, sig_der):
    """strict DER signature verification (ECDSA_verify re-encodes and compares)"""
    L = lib()
    k = _mkkey(curve, pub=pub)
    try:
        res = L.ECDSA_verify(0, bytes(digest), len(digest), bytes(sig_der), len(sig_der), k)
        L.ERR_clear_error()
        return res == 1
    finally:
        L.EC_KEY_free(k)


def ecdh(curve, priv, peer_pub):
    """-> shared x coordinate as fixed-length big-endian bytes"""
    L = lib()
    g = group(curve)
    k = _mkkey(curve, priv=priv)
    P = _mkpoint(g, peer_pub)
    try:
        buf = ctypes.create_string_buffer(128)
        n = L.ECDH_compute_key(buf, 128, P, k, None)
        if n <= 0:
            L.ERR_clear_error()
            raise OsslError("ECDH_compute_key")
        return buf.raw[:n]
    finally:
        L.EC_POINT_free(P)
        L.EC_KEY_free(k)


def _take(fn, obj):
    L = lib()
    pp = POINTER(c_ubyte)()
    n = fn(obj, byref(pp))
    if n <= 0:
        L.ERR_clear_error()
        raise OsslError("i2d failed")
    data = bytes(bytearray(pp[:n]))
    L.CRYPTO_free(pp, b"", 0)
    return data


POINT_COMPRESSED, POINT_UNCOMPRESSED, POINT_HYBRID = 2, 4, 6


def encode_point(curve, pub, form=POINT_UNCOMPRESSED):
    L = lib()
    g = group(curve)
    P = _mkpoint(g, pub)
    try:
        buf = ctypes.create_string_buffer(300)
        n = L.EC_POINT_point2oct(g, P, form, buf, 300, None)
        if n == 0:
            raise OsslError("point2oct")
        return buf.raw[:n]
    finally:
        L.EC_POINT_free(P)


def decode_point(curve, data):
    """-> (x,y) / None for infinity; raises OsslError when OpenSSL rejects"""
    L = lib()
    g = group(curve)
    P = L.EC_POINT_new(g)
    try:
        if L.EC_POINT_oct2point(g, P, bytes(data), len(data), None) != 1:
            L.ERR_clear_error()
            raise OsslError("oct2point rejected")
        return _affine(g, P)
    finally:
        L.EC_POINT_free(P)


def pub_to_spki(curve, pub, form=POINT_UNCOMPRESSED, explicit=False):
    L = lib()
    k = _mkkey(curve, pub=pub)
    try:
        L.EC_KEY_set_conv_form(k, form)
        L.EC_KEY_set_asn1_flag(k, 0 if explicit else 1)
        return _take(L.i2d_EC_PUBKEY, k)
    finally:
        L.EC_KEY_free(k)


def priv_to_sec1(curve, priv, form=POINT_UNCOMPRESSED, explicit=False):
    L = lib()
    k = _mkkey(curve, priv=priv)
    try:
        L.EC_KEY_set_conv_form(k, form)
        L.EC_KEY_set_asn1_flag(k, 0 if explicit else 1)
        return _take(L.i2d_ECPrivateKey, k)
    finally:
        L.EC_KEY_free(k)


def priv_to_pkcs8(curve, priv, form=POINT_UNCOMPRESSED, explicit=False):
    L = lib()
    k = _mkkey(curve, priv=priv)
    pk = L.EVP_PKEY_new()
    bio = L.BIO_new(L.BIO_s_mem())
    try:
        L.EC_KEY_set_conv_form(k, form)
        L.EC_KEY_set_asn1_flag(k, 0 if explicit else 1)
        if L.EVP_PKEY_set1_EC_KEY(pk, k) != 1:
            raise OsslError("set1_EC_KEY")
        if L.i2d_PKCS8PrivateKey_bio(bio, pk, None, None, 0, None, None) != 1:
            L.ERR_clear_error()
            raise OsslError("i2d_PKCS8PrivateKey_bio")
        p = c_char_p()
        n = L.BIO_ctrl(bio, 3, 0, ctypes.cast(byref(p), c_void_p))  # BIO_CTRL_INFO
        return ctypes.string_at(p, n)
    finally:
        L.BIO_free(bio)
        L.EVP_PKEY_free(pk)
        L.EC_KEY_free(k)


def _pkey_info(pk, want_priv):
    L = lib()
    k = L.EVP_PKEY_get1_EC_KEY(pk)
    if not k:
        L.ERR_clear_error()
        raise OsslError("not an EC key")
    try:
        g = L.EC_KEY_get0_group(k)
        P = L.EC_KEY_get0_public_key(k)
        pub = _affine(g, P) if P else None
        priv = None
        if want_priv:
            b = L.EC_KEY_get0_private_key(k)
            priv = _bn2int(b) if b else None
        return priv, pub
    finally:
        L.EC_KEY_free(k)


def parse_spki(der):
    """-> public point (x,y); raises OsslError if OpenSSL rejects or leaves trailing bytes"""
    L = lib()
    buf = ctypes.create_string_buffer(bytes(der), len(der))
    p = ctypes.cast(buf, c_char_p)
    start = ctypes.cast(p, c_void_p).value
    pk = L.d2i_PUBKEY(None, byref(p), len(der))
    if not pk:
        L.ERR_clear_error()
        raise OsslError("d2i_PUBKEY rejected")
    try:
        used = ctypes.cast(p, c_void_p).value - start
        if used != len(der):
            raise OsslError("trailing bytes after SPKI (%d of %d used)" % (used, len(der)))
        return _pkey_info(pk, False)[1]
    finally:
        L.EVP_PKEY_free(pk)


def parse_private(der):
    """SEC1 or PKCS#8 -> (priv, pub)"""
    L = lib()
    buf = ctypes.create_string_buffer(bytes(der), len(der))
    p = ctypes.cast(buf, c_char_p)
    start = ctypes.cast(p, c_void_p).value
    pk = L.d2i_AutoPrivateKey(None, byref(p), len(der))
    if not pk:
        L.ERR_clear_error()
        raise OsslError("d2i_AutoPrivateKey rejected")
    try:
        used = ctypes.cast(p, c_void_p).value - start
        if used != len(der):
            raise OsslError("trailing bytes after private key")
        return _pkey_info(pk, True)
    finally:
        L.EVP_PKEY_free(pk)
