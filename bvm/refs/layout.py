"""Independent model of the BF3 / BEC2 container layout (properties C01-C07).

Shares no code with bec2format.  AES comes from OpenSSL.

binary  = SIG  [BEC2: (tag len value)* 00 00]  body
body    = dirsize(4)  entry*  00  payload*
entry   = elen(1)  adr(4) stored(4) declared(4) payloadMAC(16) dlen(1) (tag len value)* entryMAC(16)
          elen = 45 + dlen ; entryMAC = last block of AES-CBC_{K, IV = 16-byte BE (1+index)} over the
          zero-padded entry without its MAC; payloadMAC likewise with IV = 0 over the stored bytes
text    = ("key: value" NL)*  NL  (80 upper-case hex chars NL)*  last-hex-line NL
"""
from . import ossl

BF3_SIG = b"BF3\x00\x00"
BEC2_SIG = b"BEC2\x00"
ENTRY_FIXED = 4 + 4 + 4 + 16 + 1 + 16  # 45
TAG_ENC = 0xC2
ENC_SESSIONKEY = b"\x02"


class LayoutError(Exception):
    def __init__(self, rule, msg=""):
        Exception.__init__(self, "%s: %s" % (rule, msg))
        self.rule = rule


class MComp:
    """model component: ordered tag list, content, declared length, encryption mark"""

    def __init__(self, desc, blob, declared=None, encrypted=False):
        self.desc = [(int(t), bytes(v)) for t, v in (desc.items() if isinstance(desc, dict) else desc)]
        self.blob = bytes(blob)
        self.declared = len(blob) if declared is None else declared
        self.encrypted = encrypted

    def stored(self, key):
        if self.encrypted:
            return ossl.aes_cbc(key, ossl.ZERO_IV, ossl.pad0(self.blob), True)
        return self.blob

    def desc_bytes(self):
        return b"".join(bytes((t, len(v))) + v for t, v in self.desc)


def mac(key, data, iv=ossl.ZERO_IV):
    return ossl.cbc_mac(key, data, iv)


def entry_iv(index0):
    return (1 + index0).to_bytes(16, "big")


def serialise_body(comps, offset, key):
    """bytes of directory + payloads for model components, first byte at file offset `offset`"""
    dlen = sum(1 + ENTRY_FIXED + len(c.desc_bytes()) for c in comps) + 1
    adr = offset + 4 + dlen
    out = [dlen.to_bytes(4, "big")]
    payloads = []
    for i, c in enumerate(comps):
        st = c.stored(key)
        d = c.desc_bytes()
        if len(d) > 255 - ENTRY_FIXED:
            raise LayoutError("entry_too_long", "description of %d bytes" % len(d))
        e = adr.to_bytes(4, "big") + len(st).to_bytes(4, "big") + c.declared.to_bytes(4, "big") + mac(key, st) + bytes((len(d),)) + d
        e += mac(key, e, entry_iv(i))
        out.append(bytes((len(e),)) + e)
        payloads.append(st)
        adr += len(st)
    out.append(b"\x00")
    return b"".join(out) + b"".join(payloads)


def serialise_bf3(comps, key):
    return BF3_SIG + serialise_body(comps, len(BF3_SIG), key)


def serialise_bec2(comps, key, blocks):
    """blocks: list of (tag, raw value bytes)"""
    hdr = BEC2_SIG + b"".join(bytes((t, len(v))) + v for t, v in blocks) + b"\x00\x00"
    return hdr + serialise_body(comps, len(hdr), key)


class Entry:
    __slots__ = ("adr", "stored", "declared", "pmac", "desc", "emac", "raw", "index", "payload")


def parse_body(buf, pos, key=None, check_mac=True, base=0):
    """strict parser/validator of a body starting at position pos of buf.  base = absolute file offset of buf[0] (the
    addresses in the directory are absolute file offsets).  Returns list of Entry (with payload filled).  Raises LayoutError(rule)."""
    n = len(buf)
    if pos + 4 > n:
        raise LayoutError("dirsize_field_truncated")
    dsize = int.from_bytes(buf[pos : pos + 4], "big")
    dstart = pos + 4
    dend = dstart + dsize
    if dend > n:
        raise LayoutError("directory_truncated", "size %d, %d present" % (dsize, n - dstart))
    p = dstart
    entries = []
    while True:
        if p >= dend:
            raise LayoutError("sentinel_missing")
        elen = buf[p]
        p += 1
        if elen == 0:
            break
        if p + elen > dend:
            raise LayoutError("entry_runs_past_directory")
        raw = buf[p : p + elen]
        p += elen
        if elen < ENTRY_FIXED:
            raise LayoutError("entry_too_short")
        e = Entry()
        e.raw = raw
        e.index = len(entries)
        e.adr = int.from_bytes(raw[0:4], "big")
        e.stored = int.from_bytes(raw[4:8], "big")
        e.declared = int.from_bytes(raw[8:12], "big")
        e.pmac = raw[12:28]
        dl = raw[28]
        if ENTRY_FIXED + dl != elen:
            raise LayoutError("entry_length_vs_description_length")
        d = raw[29 : 29 + dl]
        e.emac = raw[29 + dl :]
        desc = []
        q = 0
        seen = set()
        while q < dl:
            if q + 2 > dl:
                raise LayoutError("description_tlv_truncated")
            t, l = d[q], d[q + 1]
            q += 2
            if q + l > dl:
                raise LayoutError("description_tlv_truncated")
            if t in seen:
                raise LayoutError("duplicate_tag")
            seen.add(t)
            desc.append((t, bytes(d[q : q + l])))
            q += l
        e.desc = desc
        if e.declared > e.stored:
            raise LayoutError("declared_exceeds_stored")
        if check_mac:
            if mac(key, raw[:-16], entry_iv(e.index)) != e.emac:
                raise LayoutError("entry_mac")
        entries.append(e)
    if p != dend:
        raise LayoutError("bytes_after_sentinel_in_directory")
    for e in entries:
        if e.adr != base + p:
            raise LayoutError("address_not_absolute_contiguous", "entry %d adr %d, position %d" % (e.index, e.adr, base + p))
        if p + e.stored > n:
            raise LayoutError("payload_truncated")
        e.payload = bytes(buf[p : p + e.stored])
        p += e.stored
        if check_mac:
            if e.stored == 0:
                raise LayoutError("empty_payload")
            if mac(key, e.payload) != e.pmac:
                raise LayoutError("payload_mac")
    if p != n:
        raise LayoutError("trailing_bytes")
    return entries


def parse_bf3(binary, key=None, check_mac=True):
    if binary[: len(BF3_SIG)] != BF3_SIG:
        raise LayoutError("signature")
    return parse_body(binary, len(BF3_SIG), key, check_mac)


def parse_bec2_header(binary):
    """-> (list of (tag, value), body position)"""
    if binary[: len(BEC2_SIG)] != BEC2_SIG:
        raise LayoutError("signature")
    p = len(BEC2_SIG)
    blocks = []
    while True:
        if p + 2 > len(binary):
            raise LayoutError("auth_block_list_truncated")
        t, l = binary[p], binary[p + 1]
        p += 2
        if t == 0 and l == 0:
            break
        if p + l > len(binary):
            raise LayoutError("auth_block_truncated")
        blocks.append((t, bytes(binary[p : p + l])))
        p += l
    return blocks, p


def content_of(entries, key):
    """what the fields say: list of (desc dict, content bytes up to stored length, declared, encrypted)"""
    out = []
    for e in entries:
        d = dict(e.desc)
        enc = d.get(TAG_ENC) == ENC_SESSIONKEY
        if enc:
            if e.stored % 16:
                raise LayoutError("encrypted_payload_not_block_aligned")
            blob = ossl.aes_cbc(key, ossl.ZERO_IV, e.payload, False)
        else:
            blob = e.payload
        out.append((d, blob, e.declared, enc))
    return out


# ------------------------------------------------------------------------- text
def text_of(comment_items, binary, nl="\n"):
    lines = ["%s: %s" % (k, v) for k, v in comment_items]
    lines.append("")
    h = bytes(binary).hex().upper()
    lines += [h[i : i + 80] for i in range(0, len(h), 80)]
    return nl.join(lines) + nl


HEX = set("0123456789ABCDEF")


def check_text(text, comment_items, binary):
    """-> list of rule names the text breaks w.r.t. the documented envelope"""
    bad = []
    if "\r" in text:
        bad.append("carriage_return_in_stream_text")
    lines = text.split("\n")
    nc = len(comment_items)
    for (k, v), line in zip(comment_items, lines):
        if line != "%s: %s" % (k, v):
            bad.append("comment_line")
            break
    if len(lines) <= nc or lines[nc] != "":
        bad.append("blank_line_after_comments")
        return bad
    hexlines = lines[nc + 1 :]
    while hexlines and hexlines[-1] == "":
        hexlines.pop()
    if any(l == "" for l in hexlines):
        bad.append("empty_line_inside_hex")
    if not text.endswith("\n"):
        bad.append("no_final_newline")
    for i, l in enumerate(hexlines):
        if set(l) - HEX:
            bad.append("not_upper_case_hex")
            break
        if i < len(hexlines) - 1 and len(l) != 80:
            bad.append("line_not_80_columns")
            break
        if len(l) > 80 or len(l) % 2:
            bad.append("last_line_width")
            break
    if "".join(hexlines) != bytes(binary).hex().upper():
        bad.append("hex_differs_from_binary")
    return bad


def parse_text(text):
    """strict reader of the envelope: -> (comment dict, binary)"""
    lines = text.split("\n")
    comments = {}
    i = 0
    while i < len(lines) and lines[i] != "":
        if ":" not in lines[i]:
            raise LayoutError("comment_line")
        k, v = lines[i].split(":", 1)
        comments[k] = v.strip()
        i += 1
    if i >= len(lines):
        raise LayoutError("blank_line_after_comments")
    h = "".join(lines[i + 1 :])
    try:
        return comments, bytes.fromhex(h)
    except ValueError:
        raise LayoutError("hex")
