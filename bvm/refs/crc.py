"""Bit-serial CRC-16/MCRF4XX reference: reflected polynomial 0x8408
(x^16+x^12+x^5+1), caller-supplied start value, no final XOR.  Written from the
catalogue definition; shares nothing with the repository."""


def step(crc, byte):
    crc ^= byte
    for _ in range(8):
        if crc & 1:
            crc = (crc >> 1) ^ 0x8408
        else:
            crc >>= 1
    return crc


def crc16(data, start=0xFFFF):
    crc = start
    for b in bytes(data):
        crc = step(crc, b)
    return crc


assert crc16(b"123456789") == 0x6F91  # catalogue check value of CRC-16/MCRF4XX
