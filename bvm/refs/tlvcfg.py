"""Independent decoder of the TLV configuration blob (property C10):

    blob   = ( len(1) block(len) )*  00
    block  = group*
    group  = 02 kh kl                                  -> delete key
           | 01 kh kl ( vid FF | vid len content )* [FF]  -> delete value / set value
             (a group is closed by FF or by the end of its block)
"""


class TlvError(Exception):
    pass


def split_blocks(blob):
    """-> list of blocks; raises unless blob is exactly (len block)* 00"""
    blocks = []
    p = 0
    while True:
        if p >= len(blob):
            raise TlvError("no terminating 00")
        n = blob[p]
        p += 1
        if n == 0:
            break
        if p + n > len(blob):
            raise TlvError("block runs past the end of the blob")
        blocks.append(bytes(blob[p : p + n]))
        p += n
    if p != len(blob):
        raise TlvError("bytes after the terminating 00")
    return blocks


def decode_block(block):
    """-> list of operations; info about whether the last group was left open"""
    ops = []
    p = 0
    open_at_end = False
    while p < len(block):
        t = block[p]
        if t not in (1, 2):
            raise TlvError("unknown group tag %02x at %d" % (t, p))
        if p + 3 > len(block):
            raise TlvError("truncated group header")
        key = block[p + 1] << 8 | block[p + 2]
        p += 3
        if t == 2:
            ops.append(("delkey", key))
            continue
        n_entries = 0
        while True:
            if p == len(block):
                open_at_end = True
                break
            vid = block[p]
            p += 1
            if vid == 0xFF:
                break
            if p >= len(block):
                raise TlvError("truncated value entry")
            ln = block[p]
            p += 1
            if ln == 0xFF:
                ops.append(("delval", key, vid))
            else:
                if p + ln > len(block):
                    raise TlvError("content runs past the end of the block")
                ops.append(("set", key, vid, bytes(block[p : p + ln])))
                p += ln
            n_entries += 1
        if n_entries == 0:
            raise TlvError("group without entries")
    return ops, open_at_end


def expected_ops(conf):
    """operations a dictionary denotes: deletions sorted, then assignments sorted"""
    dels = []
    sets = []
    for (key, vid), content in conf.items():
        if vid is None:
            dels.append((key, -1, ("delkey", key)))
        elif content is None:
            dels.append((key, vid, ("delval", key, vid)))
        else:
            sets.append((key, vid, ("set", key, vid, bytes(content))))
    dels.sort(key=lambda t: t[:2])
    sets.sort(key=lambda t: t[:2])
    return [t[2] for t in dels] + [t[2] for t in sets]


def entry_size(vid, content):
    """bytes a single entry needs when alone in a block incl. its closing byte"""
    if vid is None:
        return 3
    if content is None:
        return 3 + 2 + 1
    return 3 + 2 + len(content) + 1


MAX_BLOCK = 117
