"""AES from the FIPS-197 definitions (GF(2^8) arithmetic, no lookup tables copied
from anywhere), plus the table definitions used by table-driven implementations
and textbook modes of operation (SP 800-38A) on top of any block primitive."""


def xtime(a):
    a <<= 1
    return (a ^ 0x11B) & 0xFF if a & 0x100 else a


def gmul(a, b):
    r = 0
    while b:
        if b & 1:
            r ^= a
        a = xtime(a)
        b >>= 1
    return r


def ginv(a):
    if a == 0:
        return 0
    # a^254 in GF(2^8)
    r = 1
    e = 254
    base = a
    while e:
        if e & 1:
            r = gmul(r, base)
        base = gmul(base, base)
        e >>= 1
    return r


def _rotl8(x, n):
    return ((x << n) | (x >> (8 - n))) & 0xFF


def sbox_entry(x):
    b = ginv(x)
    return b ^ _rotl8(b, 1) ^ _rotl8(b, 2) ^ _rotl8(b, 3) ^ _rotl8(b, 4) ^ 0x63


SBOX = [sbox_entry(x) for x in range(256)]
INV_SBOX = [0] * 256
for _i, _v in enumerate(SBOX):
    INV_SBOX[_v] = _i
assert sorted(SBOX) == list(range(256)) and SBOX[0] == 0x63 and SBOX[0x53] == 0xED  # FIPS-197 fig. 7 / sec 5.1.1 example

MIX = [[2, 3, 1, 1], [1, 2, 3, 1], [1, 1, 2, 3], [3, 1, 1, 2]]
INV_MIX = [[0x0E, 0x0B, 0x0D, 0x09], [0x09, 0x0E, 0x0B, 0x0D], [0x0D, 0x09, 0x0E, 0x0B], [0x0B, 0x0D, 0x09, 0x0E]]


def _col_word(matrix, j, v):
    """big-endian word of matrix * (v * e_j)"""
    w = 0
    for row in range(4):
        w = (w << 8) | gmul(matrix[row][j], v)
    return w


def table_definitions():
    """name -> list of 256 expected entries (rcon: 30) for the 14 lookup tables of a
    T-table implementation, derived from the definitions above."""
    d = {"S": list(SBOX), "Si": list(INV_SBOX)}
    for j in range(4):
        d["T%d" % (j + 1)] = [_col_word(MIX, j, SBOX[x]) for x in range(256)]
        d["T%d" % (j + 5)] = [_col_word(INV_MIX, j, INV_SBOX[x]) for x in range(256)]
        d["U%d" % (j + 1)] = [_col_word(INV_MIX, j, x) for x in range(256)]
    rc = []
    v = 1
    for _ in range(30):
        rc.append(v)
        v = xtime(v)
    d["rcon"] = rc
    return d


def expand_key(key):
    nk = len(key) // 4
    nr = nk + 6
    w = [list(key[4 * i : 4 * i + 4]) for i in range(nk)]
    rc = 1
    for i in range(nk, 4 * (nr + 1)):
        t = list(w[i - 1])
        if i % nk == 0:
            t = t[1:] + t[:1]
            t = [SBOX[b] for b in t]
            t[0] ^= rc
            rc = xtime(rc)
        elif nk > 6 and i % nk == 4:
            t = [SBOX[b] for b in t]
        w.append([a ^ b for a, b in zip(w[i - nk], t)])
    return [sum((w[4 * r + c] for c in range(4)), []) for r in range(nr + 1)]


def _add(s, k):
    return [a ^ b for a, b in zip(s, k)]


def _shift_rows(s):
    # state is column-major: s[4*c + r]
    return [s[4 * ((c + r) % 4) + r] for c in range(4) for r in range(4)]


def _inv_shift_rows(s):
    return [s[4 * ((c - r) % 4) + r] for c in range(4) for r in range(4)]


def _mix(s, m):
    out = []
    for c in range(4):
        col = s[4 * c : 4 * c + 4]
        for r in range(4):
            v = 0
            for k in range(4):
                v ^= gmul(m[r][k], col[k])
            out.append(v)
    return out


def encrypt_block(key, block):
    rk = expand_key(key)
    nr = len(rk) - 1
    s = _add(list(block), rk[0])
    for r in range(1, nr):
        s = _add(_mix(_shift_rows([SBOX[b] for b in s]), MIX), rk[r])
    s = _add(_shift_rows([SBOX[b] for b in s]), rk[nr])
    return bytes(s)


def decrypt_block(key, block):
    rk = expand_key(key)
    nr = len(rk) - 1
    s = _add(list(block), rk[nr])
    for r in range(nr - 1, 0, -1):
        s = _mix(_add([INV_SBOX[b] for b in _inv_shift_rows(s)], rk[r]), INV_MIX)
    s = _add([INV_SBOX[b] for b in _inv_shift_rows(s)], rk[0])
    return bytes(s)


assert encrypt_block(bytes(range(16)), bytes.fromhex("00112233445566778899aabbccddeeff")).hex() == "69c4e0d86a7b0430d8cdb78070b4c55a"  # FIPS-197 C.1
assert encrypt_block(bytes(range(24)), bytes.fromhex("00112233445566778899aabbccddeeff")).hex() == "dda97ca4864cdfe06eaf70a0ec0d7191"  # C.2
assert encrypt_block(bytes(range(32)), bytes.fromhex("00112233445566778899aabbccddeeff")).hex() == "8ea2b7ca516745bfeafc49904b496089"  # C.3
assert decrypt_block(bytes(range(32)), bytes.fromhex("8ea2b7ca516745bfeafc49904b496089")).hex() == "00112233445566778899aabbccddeeff"


# ------------------------------------------------------------------ modes (SP 800-38A)
def _xor(a, b):
    return bytes(x ^ y for x, y in zip(a, b))


class Modes:
    """textbook modes over a block primitive E(key, block) / D(key, block)"""

    def __init__(self, E, D):
        self.E = E
        self.D = D

    def ecb(self, key, data, enc=True):
        f = self.E if enc else self.D
        return b"".join(f(key, data[i : i + 16]) for i in range(0, len(data), 16))

    def cbc(self, key, iv, data, enc=True):
        out = []
        prev = bytes(iv)
        for i in range(0, len(data), 16):
            blk = data[i : i + 16]
            if enc:
                prev = self.E(key, _xor(blk, prev))
                out.append(prev)
            else:
                out.append(_xor(self.D(key, blk), prev))
                prev = blk
        return b"".join(out)

    def cfb(self, key, iv, data, seg, enc=True):
        """CFB with s = 8*seg bits; a final partial segment is processed with the
        leading bytes of the key stream segment (truncation)."""
        sr = bytes(iv)
        out = []
        for i in range(0, len(data), seg):
            blk = data[i : i + seg]
            o = self.E(key, sr)[: len(blk)]
            res = _xor(blk, o)
            c = res if enc else blk
            sr = (sr + c)[len(c) :] if len(c) == seg else sr
            out.append(res)
        return b"".join(out)

    def ofb(self, key, iv, data):
        o = bytes(iv)
        out = []
        for i in range(0, len(data), 16):
            o = self.E(key, o)
            out.append(_xor(data[i : i + 16], o))
        return b"".join(out)

    def ctr(self, key, counter, data):
        """counter: 128-bit integer, incremented mod 2^128, big endian"""
        out = []
        for i in range(0, len(data), 16):
            o = self.E(key, (counter % (1 << 128)).to_bytes(16, "big"))
            counter += 1
            out.append(_xor(data[i : i + 16], o))
        return b"".join(out)
