"""Independent model of the AES authentication-block container (BRP
Crypto.EncryptBuffer frame) as the property C08 states it:

    'B' | len = L+2 | 1..16 x 00 | payload (L bytes) | CRC-16/MCRF4XX (2 bytes, big endian)

encrypted with AES-128-CBC, zero IV; total length the smallest multiple of 16
that leaves room for at least one padding byte.  AES comes from OpenSSL.
"""
import hashlib

from . import crc as crcref
from . import ossl

CUSTOMER_KEY_SIZE = 10


class FrameError(Exception):
    pass


def pad_count(L):
    """number of zero bytes: minimal p in 1..16 with (2 + p + L + 2) % 16 == 0"""
    p = (-(2 + L + 2)) % 16
    return p if p != 0 else 16


def frame(payload):
    L = len(payload)
    if not 0 <= L <= 253:
        raise FrameError("payload length out of range")
    c = crcref.crc16(payload)
    return b"B" + bytes((L + 2,)) + bytes(pad_count(L)) + bytes(payload) + c.to_bytes(2, "big")


def wrap(key, payload):
    return ossl.aes_cbc(key, ossl.ZERO_IV, frame(payload), True)


def parse_frame(fr):
    """-> (payload, info) or raises FrameError; info records padding facts"""
    if len(fr) == 0 or len(fr) % 16:
        raise FrameError("length")
    if fr[0:1] != b"B":
        raise FrameError("marker")
    n = fr[1]
    if n < 2:
        raise FrameError("length byte < 2")
    padn = len(fr) - 2 - n
    if padn < 0:
        raise FrameError("length byte too large")
    payload = fr[2 + padn : 2 + padn + n - 2]
    c = int.from_bytes(fr[-2:], "big")
    if crcref.crc16(payload) != c:
        raise FrameError("crc")
    return payload, {"pad": padn, "pad_zero": fr[2 : 2 + padn] == bytes(padn)}


def unwrap(key, ct):
    return parse_frame(ossl.aes_cbc(key, ossl.ZERO_IV, ct, False))


def security_code_key(code):
    return hashlib.sha256(bytes(code)).digest()[:16]


def solve_crc_suffix(prefix, want_hi=None, want_lo=None):
    """two bytes (a, b) such that crc16(prefix+a+b) has the wanted high / low byte(s);
    CRC over two free bytes is a bijection, so a solution always exists."""
    s0 = crcref.crc16(prefix)
    for a in range(256):
        s1 = crcref.step(s0, a)
        for b in range(256):
            c = crcref.step(s1, b)
            if (want_hi is None or (c >> 8) == want_hi) and (want_lo is None or (c & 0xFF) == want_lo):
                return bytes((a, b))
    raise AssertionError("no solution (impossible)")
