"""Reference for the BF2 import (property C13).

The PAYLOAD oracle is fully independent: the generator owns the image and cuts it
into BF2 data lines; the expected component payload is the image (blob), the
concatenated raw lines (BF2-compatible) or the extent list (memory image).

The TAG rules (tag-type table, Firmware comment columns, version descriptor,
checksum width, peripheral hardware id from a one-entry filter) are not given by
the property beyond "as the BF2 instructions state"; they are pinned here as
specification data (taken from the tree at design time): a later change to them
is detected, not judged."""

TAG_FMT, TAG_ENC, TAG_TYPE, TAG_HWCID, TAG_REBOOT, TAG_INTF, TAG_CRC, TAG_FWVER, TAG_PFID2 = 0xC1, 0xC2, 0xC3, 0xC4, 0xC5, 0xC6, 0xC7, 0xC8, 0xC9
FMT_BLOB, FMT_MEM, FMT_BF2 = 0, 1, 2
TYPE_LOADER, TYPE_PERIPHERAL, TYPE_MAIN = 0, 1, 2
INTF = {"BRP": 0, "BRP-SER": 1, "BRP-CCID": 2, "BRP-TCP": 3, "BRP-OSDP": 4, "ISO7816-4": 5}
INTF_NAMES = {0: "BRP_HID", 1: "BRP_SER", 2: "BRP_CCID", 3: "BRP_TCP", 4: "OSDP", 5: "NFC"}
HW = {"SM4200": 0x9B, "BGM12X": 0xBE, "PN5180": 0xAD, "SM6300": 0xC0}
# base tag type -> (type, hwcid, fmt, interface, number of 64 KiB pages available)
TAGTYPES = {
    0x35: (TYPE_PERIPHERAL, HW["SM4200"], FMT_BLOB, 5, 4),
    0x39: (TYPE_PERIPHERAL, HW["BGM12X"], FMT_BLOB, None, 4),
    0x3D: (TYPE_PERIPHERAL, HW["PN5180"], FMT_BLOB, 5, 2),
    0x40: (TYPE_PERIPHERAL, HW["SM6300"], FMT_BLOB, 5, 8),
    0x70: (TYPE_LOADER, None, FMT_BF2, None, 4),
    0x83: (TYPE_LOADER, None, FMT_BF2, None, 1),
    0x84: (TYPE_MAIN, None, FMT_BF2, None, 32),
}
IGNORED = (0x34, 0x48)
SPECIAL_FILTERS = {"01 01 00 B6": HW["BGM12X"], "01 02 80 B6 00 BE": HW["BGM12X"], "01 02 80 BE 00 B6": HW["BGM12X"]}
UNKNOWN_TAGTYPES = [0x00, 0x10, 0x33, 0x3F, 0x49, 0x6F, 0x74, 0x82, 0xA4, 0xC0, 0xFD]


def hexs(b):
    return bytes(b).hex(" ").upper()


def data_line(ndx, tagtype, offset16, payload, checksum=False, lower=False):
    fwtag = bytes((len(payload) + 2,)) + offset16.to_bytes(2, "big") + bytes(payload)
    raw = (ndx & 0xFFFF).to_bytes(2, "big") + bytes((tagtype, len(fwtag))) + fwtag
    if checksum:
        raw += bytes(((-sum(raw)) & 0xFF,))
    h = raw.hex()
    return ":" + (h if lower else h.upper()), raw


def marker_line(ndx, kind):
    raw = (ndx & 0xFFFF).to_bytes(2, "big") + bytes((kind, 0))
    return ":" + raw.hex().upper()


class Section:
    """ground truth of one firmware section"""

    def __init__(self, base, lines, filt=None, protocol=None, versiondesc=None, crc=None, reboot=False, group_per_page=False, checksum=False):
        self.base = base
        self.lines = lines  # list of (address, payload bytes) in file order
        self.filt = filt  # bytes or None (no SELECT restated -> generator always restates)
        self.protocol = protocol  # str or "*" / None
        self.versiondesc = versiondesc  # bytes or None ("*")
        self.crc = crc  # int or None
        self.reboot = reboot
        self.group_per_page = group_per_page
        self.checksum = checksum
        self.raw_lines = []
        # placement of the start (FE) / end (FF) marker lines around the data lines; the data lines of the section are the same in
        # every style: None = one FE..FF pair (or one per page with group_per_page), "page_start_only" = a new FE at each page change
        # with no FF before it, "extra_start" = one more FE somewhere inside the group, "no_start" = no FE at all
        self.marker_style = None
        self.sep = " "  # white space between an instruction word and its parameters (any run of blanks / tabs)

    def render(self, counter):
        out = []
        if getattr(self, "bare", False):
            # a further data group of the same tag type that follows its predecessor WITHOUT any instruction line in between: the
            # instructions in force (filter, interface) go on applying; a new component starts because the tag type starts again
            self.raw_lines = []
            out.append(marker_line(counter[0], 0xFE))
            for adr, payload in self.lines:
                text, raw = data_line(counter[0], self.base + (adr >> 16), adr & 0xFFFF, payload, self.checksum)
                counter[0] += 1
                out.append(text)
                self.raw_lines.append(raw)
            out.append(marker_line(counter[0], 0xFF))
            return out
        hx = {None: hexs, "lower": lambda b: hexs(b).lower(), "nospace": lambda b: bytes(b).hex().upper(), "dashes": lambda b: hexs(b).replace(" ", "-"),
              "double_space": lambda b: hexs(b).replace(" ", "  "), "colons_lower": lambda b: hexs(b).replace(" ", ":").lower()}[getattr(self, "hex_style", None)]
        out.append("#>CHECK_FWVER%sVERSIONDESC=%s" % (self.sep, "*" if self.versiondesc is None else hx(self.versiondesc)))
        if self.filt is not None:
            out.append("#>SELECT%sFILTER=%s" % (self.sep, hx(self.filt)))
        out.append("#>SELECT_IF%sPROTOCOL=%s" % (self.sep, self.protocol if self.protocol is not None else "*"))
        if self.crc is not None:
            out.append("##CRC: " + getattr(self, "crc_format", "0x%08X") % self.crc)
        self.raw_lines = []
        cur_page = None
        style = self.marker_style
        extra_at = (len(self.lines) // 2) if style == "extra_start" and len(self.lines) >= 2 else None
        if style != "no_start":
            out.append(marker_line(counter[0], 0xFE))
        for k, (adr, payload) in enumerate(self.lines):
            page = adr >> 16
            if style == "page_start_only":
                if cur_page is not None and page != cur_page:
                    out.append(marker_line(counter[0], 0xFE))
            elif self.group_per_page and cur_page is not None and page != cur_page:
                out.append(marker_line(counter[0], 0xFF))
                out.append(marker_line(counter[0], 0xFE))
            if extra_at is not None and k == extra_at:
                out.append(marker_line(counter[0], 0xFE))
            cur_page = page
            text, raw = data_line(counter[0], self.base + page, adr & 0xFFFF, payload, self.checksum)
            counter[0] += 1
            out.append(text)
            self.raw_lines.append(raw)
        out.append(marker_line(counter[0], 0xFF))
        if self.reboot:
            out.append("#>REBOOT")
        return out


def cut_image(rng, image, start=0, max_line=250):
    """cut an image into (address, payload) lines; lines never cross a 64 KiB page"""
    lines = []
    p = 0
    n = len(image)
    fixed = rng.choice((None, 16, 32, 64, 128, 250, 1)) if n < 20000 else rng.choice((64, 128, 250))
    while p < n:
        adr = start + p
        room = 0x10000 - (adr & 0xFFFF)
        ln = fixed if fixed else rng.randrange(1, max_line + 1)
        ln = min(ln, n - p, room, max_line)
        lines.append((adr, image[p : p + ln]))
        p += ln
    return lines


def extents_of(lines):
    """merge lines (file order) into contiguous extents: list of (start, bytes)"""
    ext = []
    for adr, payload in lines:
        if ext and ext[-1][0] + len(ext[-1][1]) == adr:
            ext[-1] = (ext[-1][0], ext[-1][1] + payload)
        else:
            ext.append((adr, bytes(payload)))
    return ext


def is_contiguous_from_zero(lines):
    e = extents_of(lines)
    return len(e) == 1 and e[0][0] == 0


def firmware_comment(fwid, name, version):
    return "%04d %s %s" % (fwid, name[:9].ljust(9), version)


def expected_component(sec, header):
    """-> (desc dict, payload) the importer must produce for a well-formed section"""
    typ, hwcid, fmt, intf, _pages = TAGTYPES[sec.base]
    desc = {TAG_FMT: bytes((fmt,)), TAG_TYPE: bytes((typ,))}
    if hwcid is not None:
        desc[TAG_HWCID] = hwcid.to_bytes(2, "big")
    if intf is not None:
        desc[TAG_INTF] = bytes((intf,))
    if sec.reboot:
        desc[TAG_REBOOT] = b"\x01"
    if sec.crc is not None:
        desc[TAG_CRC] = sec.crc.to_bytes(4, "big")
    if sec.filt is not None:
        desc[TAG_PFID2] = bytes(sec.filt)
        if typ == TYPE_PERIPHERAL:
            key = hexs(sec.filt)
            if key in SPECIAL_FILTERS:
                desc[TAG_HWCID] = SPECIAL_FILTERS[key].to_bytes(2, "big")
            else:
                desc[TAG_HWCID] = bytes(sec.filt[-2:])
    if sec.versiondesc is not None:
        v = sec.versiondesc
        desc[TAG_FWVER] = bytes(v[3 : 3 + v[2]])
    fw = header.get("Firmware")
    if fw is not None and not fw[1].startswith("D-") and typ in (TYPE_LOADER, TYPE_MAIN):
        desc[TAG_FWVER] = fw[0].to_bytes(2, "big") + bytes(int(x) for x in fw[1].split("."))
    if sec.protocol not in (None, "*"):
        desc[TAG_INTF] = bytes((INTF[sec.protocol],))
    if fmt == FMT_BLOB:
        payload = b"".join(p for _, p in sec.lines)
    else:
        payload = b"".join(sec.raw_lines)
    return desc, payload


def filter_semantics(filt):
    """-> list of OR-groups, each a list of (negated, hwcid); groups are ANDed"""
    assert filt[0] == 1 and len(filt) == 2 + 2 * filt[1]
    groups = []
    cur = []
    for i in range(2, len(filt), 2):
        e = int.from_bytes(filt[i : i + 2], "big")
        cur.append((bool(e & 0x4000), e & 0x3FFF))
        if not e & 0x8000:
            groups.append(cur)
            cur = []
    return groups, cur  # cur non-empty: dangling continuation (not a well-formed filter)


def eval_filter(groups, present):
    return all(any((hid in present) != neg for neg, hid in g) for g in groups)


class ExprError(Exception):
    pass


def eval_expr(text, name_to_id, present):
    """evaluate a rendered filter expression: names, 0xHHHH, !, |, &, parentheses"""
    toks = []
    i = 0
    while i < len(text):
        c = text[i]
        if c.isspace():
            i += 1
        elif c in "!|&()":
            toks.append(c)
            i += 1
        else:
            j = i
            while j < len(text) and not text[j].isspace() and text[j] not in "!|&()":
                j += 1
            toks.append(text[i:j])
            i = j
    pos = [0]

    def peek():
        return toks[pos[0]] if pos[0] < len(toks) else None

    def take():
        t = peek()
        pos[0] += 1
        return t

    def atom():
        t = take()
        if t is None:
            raise ExprError("unexpected end")
        if t == "!":
            return not atom()
        if t == "(":
            v = expr_or()
            if take() != ")":
                raise ExprError("missing )")
            return v
        if t in ("|", "&", ")"):
            raise ExprError("unexpected " + t)
        if t.lower().startswith("0x"):
            hid = int(t, 16)
        elif t in name_to_id:
            hid = name_to_id[t]
        else:
            raise ExprError("unknown name " + t)
        return hid in present

    def expr_and():
        v = atom()
        while peek() == "&":
            take()
            v = atom() and v
        return v

    def expr_or():
        v = expr_and()
        while peek() == "|":
            take()
            v = expr_and() or v
        return v

    v = expr_or()
    if pos[0] != len(toks):
        raise ExprError("trailing tokens")
    return v
