"""Child process: runs one shard of one property and writes its observations."""
import faulthandler
import importlib
import json
import os
import struct
import sys
import time
import traceback

sys.dont_write_bytecode = True


class StallDetected(BaseException):
    pass


def _install_stall_detector(ctx):
    """periodic user-CPU-time timer (counts only while this process executes): if the evaluation counter has not moved for four
    consecutive 60-second ticks, the code under test is looping"""
    import signal

    from .load import REPO

    state = {"last": -1, "strikes": 0}

    def on_tick(signum, frame):
        n = ctx.counters_snapshot()
        if n == state["last"]:
            state["strikes"] += 1
        else:
            state["strikes"] = 0
            state["last"] = n
        if state["strikes"] >= 4:
            where = "?"
            f = frame
            while f is not None:
                if f.f_code.co_filename.startswith(REPO):
                    where = "%s:%s" % (os.path.basename(f.f_code.co_filename), f.f_code.co_name)
                    break
                f = f.f_back
            signal.setitimer(signal.ITIMER_VIRTUAL, 0)
            raise StallDetected(where)

    signal.signal(signal.SIGVTALRM, on_tick)
    signal.setitimer(signal.ITIMER_VIRTUAL, 60, 60)


def _raised_in_repository(e):
    """'file.py:function' when the innermost frame of the traceback lies in the repository under test, else None"""
    try:
        from .load import REPO

        frames = traceback.extract_tb(e.__traceback__)
        if not frames:
            return None
        last = frames[-1]
        root = os.path.realpath(REPO) + os.sep
        if os.path.realpath(last.filename).startswith(root):
            return "%s:%s" % (os.path.basename(last.filename), last.name)
    except Exception:
        pass
    return None


def main():
    prop_id, spec_file, out_file = sys.argv[1:4]
    faulthandler.enable()
    with open(spec_file) as f:
        job = json.load(f)
    from .ctx import ShardCtx

    mod = importlib.import_module("bvm.props." + prop_id.lower())
    ctx = ShardCtx(prop_id, job["tier"], job["seed"], job["name"])
    if job.get("budget_s"):
        ctx.deadline = time.time() + job["budget_s"]
    status = "ok"
    err = None
    cov = None
    if prop_id not in ("C14", "C20") and not job.get("replay"):  # C14 has per-call CPU bounds of its own; C20 judges blocking itself
        _install_stall_detector(ctx)
    if os.environ.get("BVM_COVER"):
        # diagnostic only (tools/coverage_report.sh): which lines / branches of the repository the workload reaches
        import coverage

        from .load import REPO

        cov = coverage.Coverage(data_file=os.path.join(os.environ["BVM_COVER"], "cov"), data_suffix=True, branch=True, source=[REPO], config_file=False)
        cov.start()
    try:
        if job.get("replay") is not None:
            mod.replay(job["replay"], ctx)
        else:
            mod.run_shard(job["spec"], ctx)
    except StallDetected as e:
        # a call into the code under test burned four minutes of CPU time without completing a single evaluation: it does not
        # terminate (or is absurdly slow) - a verdict about the code, not a harness failure
        ctx.violation("operation_makes_no_progress_for_240_cpu_seconds", {"innermost_repository_frame": e.args[0] if e.args else "?"}, {"kind": "stall", "shard": job["name"]})
    except BaseException as e:
        where = _raised_in_repository(e)
        if where is not None and isinstance(e, Exception) and not isinstance(e, MemoryError):
            # an exception raised INSIDE the code under test escaped at a place where the workload expects none (expected refusals
            # are caught where they are expected, and the unchanged tree runs this workload to the end): the code under test fails
            # on an input of the property's domain - a verdict about the code, not a harness failure
            ctx.violation("workload_stopped_by_exception_from_the_code_under_test:%s:%s" % (type(e).__name__, where), {"exc": repr(e)[:300], "traceback_tail": "".join(traceback.format_exception(type(e), e, e.__traceback__))[-1500:]}, {"kind": "rerun_shard", "shard": job["name"]})
        else:  # harness failure, not a verdict
            status = "error"
            err = "".join(traceback.format_exception(type(e), e, e.__traceback__))[-4000:]
    if cov is not None:
        cov.stop()
        cov.save()
    res = ctx.result()
    res["status"] = status
    res["error"] = err
    hf = out_file + ".hashes"
    with open(hf, "wb") as f:
        f.write(struct.pack("<%dQ" % len(ctx.hashes), *ctx.hashes))
    res["hashes_file"] = hf
    tmp = out_file + ".tmp"
    with open(tmp, "w") as f:
        json.dump(res, f)
    os.replace(tmp, out_file)


if __name__ == "__main__":
    main()
