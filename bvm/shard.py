"""Child process: runs one shard of one property and writes its observations."""
import faulthandler
import importlib
import json
import os
import struct
import sys
import time
import traceback

sys.dont_write_bytecode = True


def main():
    prop_id, spec_file, out_file = sys.argv[1:4]
    faulthandler.enable()
    with open(spec_file) as f:
        job = json.load(f)
    from .ctx import ShardCtx

    mod = importlib.import_module("bvm.props." + prop_id.lower())
    ctx = ShardCtx(prop_id, job["tier"], job["seed"], job["name"])
    if job.get("budget_s"):
        ctx.deadline = time.time() + job["budget_s"]
    status = "ok"
    err = None
    cov = None
    if os.environ.get("BVM_COVER"):
        # diagnostic only (tools/coverage_report.sh): which lines / branches of the repository the workload reaches
        import coverage

        from .load import REPO

        cov = coverage.Coverage(data_file=os.path.join(os.environ["BVM_COVER"], "cov"), data_suffix=True, branch=True, source=[REPO], config_file=False)
        cov.start()
    try:
        if job.get("replay") is not None:
            mod.replay(job["replay"], ctx)
        else:
            mod.run_shard(job["spec"], ctx)
    except BaseException as e:  # harness failure, not a verdict
        status = "error"
        err = "".join(traceback.format_exception(type(e), e, e.__traceback__))[-4000:]
    if cov is not None:
        cov.stop()
        cov.save()
    res = ctx.result()
    res["status"] = status
    res["error"] = err
    hf = out_file + ".hashes"
    with open(hf, "wb") as f:
        f.write(struct.pack("<%dQ" % len(ctx.hashes), *ctx.hashes))
    res["hashes_file"] = hf
    tmp = out_file + ".tmp"
    with open(tmp, "w") as f:
        json.dump(res, f)
    os.replace(tmp, out_file)


if __name__ == "__main__":
    main()
