"""Parent driver: plan shards, fan out, fold verdicts, write evidence.

usage: python -m bvm.run Cnn [--tier quick|thorough] [--replay FILE]

exit 0  property held on everything observed (known findings are printed)
exit 1  VIOLATION property=<id> replay=<path>
exit 2  INCONCLUSIVE property=<id> reason=...   (never folded into 0 or 1)
"""
import argparse
import concurrent.futures
import importlib
import json
import os
import re
import shutil
import struct
import subprocess
import sys
import tempfile
import time

sys.dont_write_bytecode = True

VERIF = os.path.dirname(os.path.dirname(os.path.abspath(__file__)))
PY = "/venv/bin/python" if os.path.exists("/venv/bin/python") else sys.executable
KNOWN_FILE = os.path.join(VERIF, "known_findings.json")
UNION_LIMIT = 4_000_000


def load_known(prop_id):
    try:
        with open(KNOWN_FILE) as f:
            data = json.load(f)
    except FileNotFoundError:
        return []
    return [e for e in data.get("findings", []) if e.get("property") == prop_id]


def match_known(mechanism, known):
    for e in known:
        if e.get("status") != "known":
            continue
        if re.fullmatch(e["mechanism"], mechanism):
            return e
    return None


def run_one(prop_id, job, scratch, timeout):
    name = job["name"]
    spec_file = os.path.join(scratch, name + ".spec.json")
    out_file = os.path.join(scratch, name + ".out.json")
    with open(spec_file, "w") as f:
        json.dump(job, f)
    env = dict(os.environ)
    env["PYTHONHASHSEED"] = "0"
    env["PYTHONPATH"] = VERIF
    env["PYTHONDONTWRITEBYTECODE"] = "1"
    env["BEC2FORMAT_VERIF"] = "1"
    env["VERIF_SCRATCH"] = scratch
    env["PYTHONUTF8"] = "1"
    for k_, v_ in (job.get("env") or {}).items():
        env[k_] = v_
    cmd = [PY, "-B", "-m", "bvm.shard", prop_id, spec_file, out_file]
    if job.get("dev"):
        cmd = [PY, "-B", "-X", "dev", "-m", "bvm.shard", prop_id, spec_file, out_file]
    if job.get("optimize") or os.environ.get("BVM_OPTIMIZE_ALL"):
        # the interpreter run with -O: `assert` statements of the code under test (and of the harness) are compiled away
        cmd = [PY, "-B", "-O", "-m", "bvm.shard", prop_id, spec_file, out_file]
    t0 = time.time()
    try:
        p = subprocess.run(
            cmd, cwd=VERIF, env=env, timeout=timeout, stdout=subprocess.PIPE, stderr=subprocess.PIPE
        )
    except subprocess.TimeoutExpired:
        return {"shard": name, "status": "timeout", "error": "watchdog %ss" % timeout, "wall_s": time.time() - t0}
    if not os.path.exists(out_file):
        return {
            "shard": name,
            "status": "crash",
            "error": "rc=%s stderr=%s" % (p.returncode, p.stderr.decode("utf-8", "replace")[-3000:]),
            "wall_s": time.time() - t0,
        }
    with open(out_file) as f:
        res = json.load(f)
    return res


def main(argv=None):
    ap = argparse.ArgumentParser()
    ap.add_argument("prop")
    ap.add_argument("--tier", default=os.environ.get("VERIF_TIER", "quick"), choices=["quick", "thorough"])
    ap.add_argument("--replay", default=None)
    ap.add_argument("--jobs", type=int, default=int(os.environ.get("VERIF_JOBS", "0")) or min(16, os.cpu_count() or 4))
    ap.add_argument("--no-evidence", action="store_true")
    args = ap.parse_args(argv)
    prop_id = args.prop.upper()
    try:
        seed = int(os.environ.get("VERIF_SEED", "0"))
    except ValueError:
        seed = 0
    tier = args.tier
    os.environ["PYTHONHASHSEED"] = "0"
    sys.path.insert(0, VERIF)
    mod = importlib.import_module("bvm.props." + prop_id.lower())
    t0 = time.time()
    scratch = tempfile.mkdtemp(prefix="bvm-%s-" % prop_id)
    try:
        if args.replay:
            with open(args.replay) as f:
                rec = json.load(f)
            rp_ = rec.get("replay", rec)
            if isinstance(rp_, dict) and rp_.get("kind") in ("stall", "rerun_shard"):
                # witnesses that are a whole shard (a stall, an exception escaping from the code under test): run that shard again
                seed = rec.get("seed", seed)
                tier = rec.get("tier", tier)
                base = rp_["shard"][:-2] if rp_["shard"].endswith("_O") else rp_["shard"]
                jobs = [dict(j, tier=tier, seed=seed, optimize=rp_["shard"].endswith("_O")) for j in mod.plan(tier, seed) if j["name"] == base]
            else:
                jobs = [{"name": "replay", "tier": tier, "seed": rec.get("seed", seed), "replay": rp_, "spec": None}]
        else:
            jobs = []
            for j in mod.plan(tier, seed):
                j = dict(j)
                j.setdefault("tier", tier)
                j.setdefault("seed", seed)
                jobs.append(j)
            # a few shards of the plan are run a second time with the interpreter in -O mode (assert statements of the code
            # under test compiled away): names listed in the property's OPTIMIZED_SHARDS
            for nm in getattr(mod, "OPTIMIZED_SHARDS", ()):
                for j in list(jobs):
                    if j["name"] == nm:
                        j2 = dict(j, name=nm + "_O", optimize=True)
                        jobs.append(j2)
        if os.environ.get("BVM_ONLY"):
            jobs = [j for j in jobs if any(j["name"].startswith(x) for x in os.environ["BVM_ONLY"].split(","))]  # debugging aid
        timeout = getattr(mod, "TIMEOUT", {}).get(tier, 3600 if tier == "quick" else 6 * 3600)
        if os.environ.get("BVM_TIMEOUT"):
            timeout = int(os.environ["BVM_TIMEOUT"])
        results = []
        with concurrent.futures.ThreadPoolExecutor(max_workers=args.jobs) as ex:
            futs = [ex.submit(run_one, prop_id, j, scratch, timeout) for j in jobs]
            for fu in futs:
                results.append(fu.result())
        return fold(mod, prop_id, tier, seed, results, scratch, t0, args)
    finally:
        shutil.rmtree(scratch, ignore_errors=True)


def fold(mod, prop_id, tier, seed, results, scratch, t0, args):
    agg = {
        "evaluations": 0,
        "bins": {},
        "monitors": {},
        "exceptions": {},
        "notes": {},
        "extra": {},
        "samples": [],
        "violations": [],
        "violation_counts": {},
    }
    problems = []
    hashes = set()
    distinct_sum = 0
    enum_distinct = 0
    union_ok = True
    max_keys = set(getattr(mod, "MAX_EXTRA", ()))
    for r in results:
        st = r.get("status")
        if st != "ok":
            problems.append("shard %s: %s: %s" % (r.get("shard"), st, (r.get("error") or "")[-1500:]))
            if st in ("timeout", "crash"):
                continue
        agg["evaluations"] += r.get("evaluations", 0)
        for k in ("bins", "monitors", "exceptions", "notes", "violation_counts"):
            for n, c in r.get(k, {}).items():
                agg[k][n] = agg[k].get(n, 0) + c
        for n, c in r.get("extra", {}).items():
            if n in max_keys:
                agg["extra"][n] = max(agg["extra"].get(n, 0), c)
            else:
                agg["extra"][n] = agg["extra"].get(n, 0) + c
        for s in r.get("samples", []):
            if len(agg["samples"]) < 8:
                agg["samples"].append(s)
        agg["violations"] += r.get("violations", [])
        distinct_sum += r.get("distinct", 0)
        enum_distinct += r.get("enum_distinct", 0)
        hf = r.get("hashes_file")
        if hf and os.path.exists(hf) and union_ok:
            with open(hf, "rb") as f:
                data = f.read()
            n = len(data) // 8
            if len(hashes) + n > UNION_LIMIT:
                union_ok = False
            else:
                hashes.update(struct.unpack("<%dQ" % n, data))
    # distinct count: exact union over shards when small enough, otherwise the
    # largest lower bound we can give (the biggest per-shard distinct count ... or union so far)
    if union_ok:
        distinct = len(hashes)
        distinct_how = "exact union of 64-bit case digests over all shards"
    else:
        distinct = max([len(hashes)] + [r.get("distinct", 0) for r in results])
        distinct_how = "lower bound (largest per-shard / partial union; full union too large)"

    if enum_distinct:
        distinct += enum_distinct
        distinct_how += " + %d cases distinct by construction (disjoint enumerated ranges)" % enum_distinct

    known = load_known(prop_id)
    known_hit = {}
    new_viol = []
    for v in agg["violations"]:
        e = match_known(v["mechanism"], known)
        if e is not None:
            known_hit.setdefault(e["mechanism"], (e, v))
        else:
            new_viol.append(v)
    unknown_mechs = sorted(
        m for m in agg["violation_counts"] if match_known(m, known) is None
    )

    reasons = list(problems)
    if not args.replay:
        for b in getattr(mod, "mandatory_bins", lambda t: [])(tier):
            if agg["bins"].get(b, 0) == 0:
                reasons.append("mandatory bin never hit: " + b)
        for m in getattr(mod, "mandatory_monitors", lambda t: [])(tier):
            if agg["monitors"].get(m, 0) == 0:
                reasons.append("monitor never evaluated: " + m)
        if agg["evaluations"] == 0:
            reasons.append("no executions observed")

    fin = getattr(mod, "finish", None)
    fin_extra = {}
    if fin and not args.replay:
        fin_extra = fin(agg, tier) or {}  # may compact agg["bins"] after the mandatory-bin test above

    wall = round(time.time() - t0, 2)
    coverage = {
        "evaluations": agg["evaluations"],
        "distinct_nontrivial": distinct,
        "distinct_counting": distinct_how,
        "rule": getattr(mod, "RULE", ""),
        "samples": agg["samples"],
        "bins": dict(sorted(agg["bins"].items())),
        "monitor_events": dict(sorted(agg["monitors"].items())),
        "exceptions_seen": dict(sorted(agg["exceptions"].items())),
        "observations": dict(sorted(agg["notes"].items())),
        "shards": len(results),
        "violation_mechanisms": dict(sorted(agg["violation_counts"].items())),
        "known_findings_hit": sorted(known_hit),
        "inconclusive_reasons": reasons,
    }
    coverage.update(agg["extra"])
    coverage.update(fin_extra)
    evidence = {
        "property_id": prop_id,
        "tier": tier,
        "seed": seed,
        "level": getattr(mod, "LEVEL", "exploration"),
        "coverage": coverage,
        "assumptions": list(getattr(mod, "ASSUMPTIONS", [])),
        "wall_s": wall,
        "violations": len(unknown_mechs),
    }
    if not args.no_evidence and not args.replay:
        os.makedirs(os.path.join(VERIF, "evidence"), exist_ok=True)
        with open(os.path.join(VERIF, "evidence", prop_id + ".json"), "w") as f:
            json.dump(evidence, f, indent=1, sort_keys=True)
            f.write("\n")

    print(
        "%s tier=%s seed=%s evaluations=%d distinct=%d shards=%d wall=%.1fs"
        % (prop_id, tier, seed, agg["evaluations"], distinct, len(results), wall)
    )
    slow = sorted(((r.get("wall_s", 0) or 0, r.get("shard")) for r in results), reverse=True)[:4]
    print("  slowest shards: " + ", ".join("%s %.0fs" % (n, w) for w, n in slow))
    for m, (e, v) in sorted(known_hit.items()):
        print("KNOWN-FINDING: property=%s %s -- %s (seen %d times)" % (prop_id, e["mechanism"], e.get("what", "")[:240], agg["violation_counts"].get(v["mechanism"], 0)))
    rc = 0
    if new_viol:
        rdir = os.path.join(VERIF, "evidence", "replay")
        os.makedirs(rdir, exist_ok=True)
        seen = set()
        for v in new_viol:
            if v["mechanism"] in seen:
                continue
            seen.add(v["mechanism"])
            safe = re.sub(r"[^A-Za-z0-9_.-]+", "_", v["mechanism"])[:80]
            path = os.path.join(rdir, "%s-%s.json" % (prop_id, safe))
            with open(path, "w") as f:
                json.dump({"property": prop_id, "tier": tier, "seed": seed, "mechanism": v["mechanism"], "detail": v["detail"], "replay": v["replay"], "shard": v["shard"]}, f, indent=1)
            print("  mechanism=%s count=%d detail=%s" % (v["mechanism"], agg["violation_counts"].get(v["mechanism"], 0), json.dumps(v["detail"])[:600]))
            print("VIOLATION property=%s replay=%s" % (prop_id, path))
        for r in reasons:
            print("NOTE (run also incomplete): %s" % r.replace("\n", " | ")[:600])
        rc = 1
    elif reasons:
        for r in reasons:
            print("INCONCLUSIVE property=%s reason=%s" % (prop_id, r.replace("\n", " | ")[:1500]))
        rc = 2
    else:
        print("HELD property=%s on %d observed executions" % (prop_id, agg["evaluations"]))
    return rc


if __name__ == "__main__":
    sys.exit(main())
