"""C16 - bundled AES equals FIPS-197 / SP 800-38A; the registered adapter is a pure
zero-padded CBC.

Oracles: GF(2^8) definitions (tables, exhaustive), OpenSSL (everything else),
textbook modes over the OpenSSL block primitive for segment sizes OpenSSL has no
native mode for, NIST vectors as anchors.
"""
import io
import itertools

from ..ctx import fmt_exc
from ..load import load
from ..refs import aes_def, ossl

ID = "C16"
LEVEL = "exploration"
RULE = (
    "table cases: every entry of the 14 lookup tables (+ round constants) against its GF(2^8) definition (complete); "
    "cipher cases: (key of 16/24/32 bytes, block) vs OpenSSL incl. decrypt(encrypt); mode cases: (mode, key, iv/counter/"
    "segment size, data, chunking) vs OpenSSL / textbook mode, every composition of inputs <= 9 bytes into chunks and "
    "seeded random chunkings (incl. empty chunks) of longer inputs; feeder cases with PKCS#7 and no padding, stream "
    "helpers with several block sizes; adapter histories: seeded random interleavings of encrypt/decrypt/mac calls on "
    "several adapter objects, each result compared with the stateless reference. distinct = digest of the case; "
    "non-trivial = data length >= 1 (tables: all entries)"
)
ASSUMPTIONS = [
    "OpenSSL is FIPS-197/SP 800-38A conformant (anchored by the NIST appendix vectors embedded in the check)",
    "only paddings produced by the encrypter are decrypted (stripping of invalid PKCS#7 is unspecified)",
    "data of length 0 for the adapter is outside the stated range (lengths 1..n)",
]
TIMEOUT = {"quick": 900, "thorough": 4 * 3600}
OPTIMIZED_SHARDS = ("modes1", "feeder1", "adapter1")  # these shards also run under python -O

NIST_KEY = bytes.fromhex("2b7e151628aed2a6abf7158809cf4f3c")
NIST_PT = bytes.fromhex(
    "6bc1bee22e409f96e93d7e117393172aae2d8a571e03ac9c9eb76fac45af8e51"
    "30c81c46a35ce411e5fbc1191a0a52eff69f2445df4f9b17ad2b417be66c3710"
)
NIST_IV = bytes(range(16))
NIST = {
    "ecb": "3ad77bb40d7a3660a89ecaf32466ef97f5d3d58503b9699de785895a96fdbaaf43b1cd7f598ece23881b00e3ed0306887b0c785e27e8ad3f8223207104725dd4",
    "cbc": "7649abac8119b246cee98e9b12e9197d5086cb9b507219ee95db113a917678b273bed6b8e3c1743b7116e69e222295163ff1caa1681fac09120eca307586e1a7",
    "cfb128": "3b3fd92eb72dad20333449f8e83cfb4ac8a64537a0b3a93fcde3cdad9f1ce58b26751f67a3cbb140b1808cf187a4f4dfc04b05357c5d1c0eeac4c66f9ff7f2e6",
    "cfb8": "3b79424c9c0dd436bace9e0ed4586a4f32b9",
    "ofb": "3b3fd92eb72dad20333449f8e83cfb4a7789508d16918f03f53c52dac54ed8259740051e9c5fecf64344f7a82260edcc304c6528f659c77866a510d9c1d6ae5e",
    "ctr": "874d6191b620e3261bef6864990db6ce9806f66b7970fdff8617187bb9fffdff5ae4df3edbd5d35e5b4f09020db03eab1e031dda2fbe03d1792170a0f3009cee",
}
NIST_CTR0 = 0xF0F1F2F3F4F5F6F7F8F9FAFBFCFDFEFF
FIPS197 = [
    (bytes(range(16)), "69c4e0d86a7b0430d8cdb78070b4c55a"),
    (bytes(range(24)), "dda97ca4864cdfe06eaf70a0ec0d7191"),
    (bytes(range(32)), "8ea2b7ca516745bfeafc49904b496089"),
]
FIPS197_PT = bytes.fromhex("00112233445566778899aabbccddeeff")

REF = aes_def.Modes(lambda k, b: ossl.aes_ecb(k, b, True), lambda k, b: ossl.aes_ecb(k, b, False))


def plan(tier, seed):
    jobs = [{"name": "tables", "spec": {"kind": "tables"}}, {"name": "vectors", "spec": {"kind": "vectors"}}]
    q = tier == "quick"
    for i in range(3 if q else 8):
        jobs.append({"name": "block%d" % i, "spec": {"kind": "block", "n": 1500 if q else 200000}})
    for i in range(4 if q else 16):
        jobs.append({"name": "modes%d" % i, "spec": {"kind": "modes", "n": 220 if q else 25000, "i": i}})
    for i in range(3 if q else 12):
        jobs.append({"name": "feeder%d" % i, "spec": {"kind": "feeder", "n": 200 if q else 20000}})
    for i in range(4 if q else 12):
        jobs.append({"name": "adapter%d" % i, "spec": {"kind": "adapter", "n": 120 if q else 10000}})
    jobs.append({"name": "splits", "spec": {"kind": "splits", "maxlen": 8 if q else 11}})
    for i in range(2 if q else 8):
        jobs.append({"name": "threads%d" % i, "spec": {"kind": "threads", "rounds": 3 if q else 20, "same_key": i % 2 == 0}})
    return jobs


def mandatory_bins(tier):
    b = ["table_entries", "nist_fips197", "nist_sp800_38a"]
    b += ["block_key%d" % k for k in (16, 24, 32)]
    b += ["mode_" + m for m in ("ecb", "cbc", "cfb", "ofb", "ctr")]
    b += ["cfb_seg%d" % s for s in range(1, 17)]
    b += ["block_mixed_call_sequence_on_one_object", "adapter_objects_used_by_concurrent_threads", "key_buffer_reused_for_the_next_key", "one_block_cipher_object_used_by_concurrent_threads"]
    b += ["cbc_default_iv", "cfb_default_iv", "ofb_default_iv", "ctr_default_counter"]
    b += ["ctr_wraparound", "ctr_carry", "all_compositions", "empty_chunk", "feeder_pkcs7", "feeder_none", "stream_bs1", "stream_bs15", "stream_bs16", "stream_bs17", "stream_bs8192", "stream_with_short_reads", "stream_padding_none", "stream_padding_default", "one_adapter_object_used_by_concurrent_threads",
          "adapter_history", "adapter_shared_key_iv", "adapter_trailing_zero_plaintext", "adapter_len_mod16_0", "adapter_len_mod16_1", "adapter_len_mod16_15", "adapter_explicit_iv", "adapter_default_iv", "adapter_long_data", "global_state_unchanged"]
    return b


def finish(agg, tier):
    return {"exhaustive": agg["bins"].get("table_entries", 0) == 14 * 256 + 30, "exhaustive_scope": "the 14 lookup tables and the round constants, entry by entry"}


# ---------------------------------------------------------------------------
def compositions(n):
    """all ways to split a length n into positive chunk lengths"""
    if n == 0:
        yield ()
        return
    for bits in range(1 << (n - 1)):
        parts = []
        cur = 1
        for i in range(n - 1):
            if bits >> i & 1:
                parts.append(cur)
                cur = 1
            else:
                cur += 1
        parts.append(cur)
        yield tuple(parts)


def rand_chunks(rng, n, empty=True):
    parts = []
    left = n
    while left:
        if empty and rng.random() < 0.15:
            parts.append(0)
            continue
        c = rng.choice((1, 2, 15, 16, 17, 31, 32, 33)) if rng.random() < 0.5 else rng.randrange(1, left + 1)
        c = min(c, left)
        parts.append(c)
        left -= c
    if empty and rng.random() < 0.2:
        parts.append(0)
    return tuple(parts)


def cut(data, parts):
    out = []
    p = 0
    for c in parts:
        out.append(data[p : p + c])
        p += c
    assert p == len(data)
    return out


class ShortReadStream:
    """a readable stream that - as raw streams, pipes and sockets may - returns fewer bytes than requested before EOF"""

    def __init__(self, data, rng):
        self.data = data
        self.pos = 0
        self.rng = rng

    def read(self, n=-1):
        left = len(self.data) - self.pos
        if left == 0:
            return b""
        want = left if n is None or n < 0 else min(n, left)
        k = self.rng.randrange(1, want + 1)
        out = self.data[self.pos : self.pos + k]
        self.pos += k
        return out


def make_mode(ns, mode, key, iv, seg, ctr0):
    a = ns.aes
    if mode == "ecb":
        return a.AESModeOfOperationECB(key)
    if mode == "cbc":
        return a.AESModeOfOperationCBC(key, iv)
    if mode == "cfb":
        return a.AESModeOfOperationCFB(key, iv, segment_size=seg)
    if mode == "ofb":
        return a.AESModeOfOperationOFB(key, iv)
    if mode == "ctr":
        if ctr0 == 1:
            return a.AESModeOfOperationCTR(key)  # default counter (starts at 1)
        return a.AESModeOfOperationCTR(key, a.Counter(initial_value=ctr0))
    raise ValueError(mode)


def ref_mode(mode, key, iv, seg, ctr0, data, enc):
    if mode == "ecb":
        return ossl.aes_ecb(key, data, enc)
    if mode == "cbc":
        return ossl.aes_cbc(key, iv if iv is not None else bytes(16), data, enc)
    if mode == "cfb":
        r = REF.cfb(key, iv if iv is not None else bytes(16), data, seg, enc)
        if seg == 1:
            assert r == ossl.aes_cfb8(key, iv if iv is not None else bytes(16), data, enc)
        if seg == 16:
            assert r == ossl.aes_cfb128(key, iv if iv is not None else bytes(16), data, enc)
        return r
    if mode == "ofb":
        return ossl.aes_ofb(key, iv if iv is not None else bytes(16), data, enc)
    if mode == "ctr":
        r = ossl.aes_ctr(key, (ctr0 % (1 << 128)).to_bytes(16, "big"), data, enc)
        assert r == REF.ctr(key, ctr0, data)
        return r


def direct_mode_case(ns, ctx, mode, key, iv, seg, ctr0, data, parts, enc, rp):
    """mode object used directly; chunk lengths must respect the mode's granularity"""
    m = make_mode(ns, mode, key, iv, seg, ctr0)
    if iv is None and mode in ("cbc", "cfb", "ofb"):
        ctx.bin(mode + "_default_iv")
    if mode == "ctr" and ctr0 == 1:
        ctx.bin("ctr_default_counter")
    f = m.encrypt if enc else m.decrypt
    try:
        got = b"".join(f(c) for c in cut(data, parts))
    except Exception as e:
        ctx.violation("mode_object_raises:" + mode, {"exc": fmt_exc(e), "parts": parts, "len": len(data)}, rp)
        return
    ctx.mon("mode_object_call", len(parts))
    exp = ref_mode(mode, key, iv, seg, ctr0, data, enc)
    if got != exp:
        ctx.violation("mode_object_differs:" + mode + (":enc" if enc else ":dec"), {"len": len(data), "parts": parts, "seg": seg, "keylen": len(key), "got": got, "expected": exp}, rp)


def feeder_case(ns, ctx, mode, key, iv, seg, ctr0, data, parts, padding, rp):
    """Encrypter/Decrypter fed in chunks; returns nothing, records violations"""
    bf = ns.blockfeeder
    block_mode = mode in ("ecb", "cbc")
    if padding == "none" and block_mode and len(data) % 16:
        return
    if padding == "none" and mode == "cfb":
        return  # segment modes refuse padding='none' by design
    if block_mode:
        if padding == "default":
            padn = 16 - len(data) % 16
            padded = data + bytes([padn]) * padn
        else:
            padded = data
            if len(data) == 0:
                return  # no-padding final block must be exactly 16 bytes
        exp = ref_mode(mode, key, iv, seg, ctr0, padded, True)
    else:
        exp = ref_mode(mode, key, iv, seg, ctr0, data, True)
    try:
        e = bf.Encrypter(make_mode(ns, mode, key, iv, seg, ctr0), padding=padding)
        ct = b"".join(e.feed(c) for c in cut(data, parts)) + e.feed()
    except Exception as ex:
        ctx.violation("feeder_encrypt_raises:" + mode, {"exc": fmt_exc(ex), "parts": parts, "len": len(data), "padding": padding}, rp)
        return
    ctx.mon("feeder_feed", len(parts) + 1)
    if ct != exp:
        ctx.violation("feeder_encrypt_differs:" + mode + ":" + padding, {"len": len(data), "parts": parts, "seg": seg, "got": ct, "expected": exp}, rp)
        return
    # decrypt with another random chunking of the ciphertext
    parts2 = rand_chunks(ctx.rng, len(ct))
    try:
        d = bf.Decrypter(make_mode(ns, mode, key, iv, seg, ctr0), padding=padding)
        pt = b"".join(d.feed(c) for c in cut(ct, parts2)) + d.feed()
    except Exception as ex:
        ctx.violation("feeder_decrypt_raises:" + mode, {"exc": fmt_exc(ex), "parts": parts2, "len": len(ct), "padding": padding}, rp)
        return
    ctx.mon("feeder_feed", len(parts2) + 1)
    if pt != data:
        ctx.violation("feeder_decrypt_differs:" + mode + ":" + padding, {"len": len(data), "parts": parts2, "got": pt, "expected": data}, rp)


def gen_params(rng, mode):
    key = rng.randbytes(rng.choice((16, 24, 32)))
    iv = rng.randbytes(16) if rng.random() < 0.85 else None
    seg = rng.randrange(1, 17) if mode == "cfb" else 0
    r = rng.random()
    if r < 0.25:
        ctr0 = (1 << 128) - rng.randrange(1, 6)
    elif r < 0.55:
        k = rng.randrange(1, 16)
        ctr0 = (rng.getrandbits(128 - 8 * k) << (8 * k)) | ((1 << (8 * k)) - rng.randrange(1, 4))
    elif r < 0.6:
        ctr0 = 1
    else:
        ctr0 = rng.getrandbits(128)
    return key, iv, seg, ctr0


def mode_len(rng, mode, seg, maxlen=200):
    n = rng.choice((0, 1, 15, 16, 17, 31, 32, 33, 47, 48, 49)) if rng.random() < 0.4 else rng.randrange(0, maxlen)
    return n


def snapshot_globals(ns):
    a = ns.aes.AES
    return (
        tuple(tuple(getattr(a, t)) for t in ("S", "Si", "T1", "T2", "T3", "T4", "T5", "T6", "T7", "T8", "U1", "U2", "U3", "U4", "rcon")),
        tuple(sorted(a.number_of_rounds.items())),
        id(ns.crypto.create_AES128(bytes(16)).__class__),
    )


def run_shard(spec, ctx):
    ns = load()
    rng = ctx.rng
    kind = spec["kind"]
    A = ns.aes.AES
    if kind == "tables":
        defs = aes_def.table_definitions()
        for name, exp in defs.items():
            got = list(getattr(A, name))
            if len(got) != len(exp):
                ctx.violation("table_length:" + name, {"got": len(got), "expected": len(exp)}, {"kind": "table", "name": name})
            for i, (g, e) in enumerate(zip(got, exp)):
                ctx.ev()
                ctx.bin("table_entries")
                if g != e:
                    ctx.violation("table_entry_differs:" + name, {"index": i, "got": g, "expected": e}, {"kind": "table", "name": name, "index": i})
            ctx.distinct_by_enumeration(len(exp))
        ctx.sample({"kind": "table", "name": "S", "index": 0x53, "value": A.S[0x53]})
        return
    if kind == "vectors":
        for key, cth in FIPS197:
            ctx.ev()
            ctx.bin("nist_fips197")
            ctx.distinct("fips197", key)
            got = bytes(A(key).encrypt(FIPS197_PT))
            back = bytes(A(key).decrypt(bytes.fromhex(cth)))
            if got.hex() != cth or back != FIPS197_PT or ossl.aes_ecb(key, FIPS197_PT).hex() != cth:
                ctx.violation("fips197_vector", {"keylen": len(key), "got": got, "expected": cth}, {"kind": "fips", "keylen": len(key)})
        for mode, seg, data in (("ecb", 0, NIST_PT), ("cbc", 0, NIST_PT), ("cfb", 16, NIST_PT), ("cfb", 1, NIST_PT[:18]), ("ofb", 0, NIST_PT), ("ctr", 0, NIST_PT)):
            name = mode if mode != "cfb" else ("cfb128" if seg == 16 else "cfb8")
            exp = bytes.fromhex(NIST[name])
            ctx.ev()
            ctx.bin("nist_sp800_38a")
            ctx.distinct("sp800", name)
            parts = (16,) * (len(data) // 16) if mode != "cfb" or seg == 16 else (1,) * len(data)
            m = make_mode(ns, mode, NIST_KEY, NIST_IV, seg, NIST_CTR0)
            got = b"".join(m.encrypt(c) for c in cut(data, parts))
            m = make_mode(ns, mode, NIST_KEY, NIST_IV, seg, NIST_CTR0)
            back = b"".join(m.decrypt(c) for c in cut(exp, parts))
            if got != exp or back != data or ref_mode(mode, NIST_KEY, NIST_IV, seg, NIST_CTR0, data, True) != exp:
                ctx.violation("sp800_38a_vector:" + name, {"got": got, "expected": exp}, {"kind": "sp800", "name": name})
        ctx.sample({"kind": "vector", "name": "SP800-38A F.2.1 CBC-AES128", "ct": NIST["cbc"][:32]})
        return
    if kind == "block":
        for i in range(spec["n"]):
            kl = (16, 24, 32)[i % 3]
            r = rng.random()
            key = rng.randbytes(kl) if r > 0.1 else bytes([rng.choice((0, 0xFF, 0x80, 1))] * kl)
            blk = rng.randbytes(16) if rng.random() > 0.1 else bytes([rng.choice((0, 0xFF, 0x80, 1))] * 16)
            ctx.ev()
            ctx.bin("block_key%d" % kl)
            ctx.distinct("block", key, blk)
            rp = {"kind": "block", "key": key.hex(), "block": blk.hex()}
            try:
                c = A(key)
                ct = bytes(c.encrypt(blk if i % 2 else list(blk)))
                pt = bytes(c.decrypt(ct))
                pt2 = bytes(A(key).decrypt(blk))
            except Exception as e:
                ctx.violation("block_cipher_raises", {"exc": fmt_exc(e)}, rp)
                continue
            ctx.mon("AES.encrypt")
            ctx.mon("AES.decrypt", 2)
            if ct != ossl.aes_ecb(key, blk, True):
                ctx.violation("block_encrypt_differs:key%d" % kl, {"got": ct, "expected": ossl.aes_ecb(key, blk, True)}, rp)
            if pt != blk:
                ctx.violation("block_decrypt_not_inverse:key%d" % kl, {"got": pt, "expected": blk}, rp)
            if pt2 != ossl.aes_ecb(key, blk, False):
                ctx.violation("block_decrypt_differs:key%d" % kl, {"got": pt2}, rp)
            if i % 4 == 3:
                # one long-lived cipher object used for a mixed sequence of encryptions and decryptions (also through an ECB
                # mode object): every call must give the value a fresh object gives
                seq = []
                try:
                    obj = A(key) if i % 8 == 3 else ns.aes.AESModeOfOperationECB(key)
                    for _ in range(rng.randrange(3, 9)):
                        enc = bool(rng.getrandbits(1))
                        b = rng.randbytes(16)
                        got = bytes((obj.encrypt if enc else obj.decrypt)(b))
                        seq.append("E" if enc else "D")
                        if got != ossl.aes_ecb(key, b, enc):
                            ctx.violation("block_result_depends_on_earlier_calls_on_the_same_object:key%d" % kl, {"calls_so_far": "".join(seq), "object": type(obj).__name__}, dict(rp, seq="".join(seq)))
                            break
                    ctx.bin("block_mixed_call_sequence_on_one_object")
                    ctx.mon("AES.encrypt", seq.count("E"))
                    ctx.mon("AES.decrypt", seq.count("D"))
                except Exception as e:
                    ctx.violation("block_cipher_raises", {"exc": fmt_exc(e), "seq": "".join(seq)}, rp)
            if i % 4 == 1:
                # the key handed over in a mutable buffer that the caller re-uses for the next key
                try:
                    k1, k2 = rng.randbytes(kl), rng.randbytes(kl)  # k1: a key no object has used so far
                    kb = bytearray(k1)
                    o1 = A(kb) if i % 8 == 1 else A(memoryview(kb))
                    r1 = bytes(o1.encrypt(blk))
                    kb[:] = k2
                    o2 = A(kb)
                    r2 = bytes(o2.encrypt(blk))
                    r3 = bytes(A(bytes(k2)).decrypt(blk))
                    ctx.bin("key_buffer_reused_for_the_next_key")
                    ctx.mon("AES.encrypt", 2)
                    ctx.mon("AES.decrypt")
                    if r1 != ossl.aes_ecb(k1, blk, True) or r2 != ossl.aes_ecb(k2, blk, True) or r3 != ossl.aes_ecb(k2, blk, False):
                        ctx.violation("block_result_depends_on_a_key_used_by_another_object:key%d" % kl, {"first_ok": r1 == ossl.aes_ecb(k1, blk, True), "second_ok": r2 == ossl.aes_ecb(k2, blk, True)}, dict(rp, key1=k1.hex(), key2=k2.hex()))
                except Exception as e:
                    ctx.violation("block_cipher_raises", {"exc": fmt_exc(e), "key_type": "bytearray"}, rp)
            if i == 0:
                ctx.sample({"kind": "block", "key": key, "block": blk, "ct": ct})
        return
    if kind == "modes":
        modes = ("ecb", "cbc", "cfb", "ofb", "ctr")
        for i in range(spec["n"]):
            mode = modes[i % 5]
            key, iv, seg, ctr0 = gen_params(rng, mode)
            if mode == "cfb" and i < 16 * 5:
                seg = (i // 5) % 16 + 1
            n = mode_len(rng, mode, seg)
            # direct mode objects: respect granularity
            if mode in ("ecb", "cbc"):
                n -= n % 16
                parts = (16,) * (n // 16)
            elif mode == "cfb":
                n -= n % seg
                parts = []
                left = n
                while left:
                    c = seg * rng.randrange(1, max(2, left // seg + 1))
                    c = min(c, left)
                    parts.append(c)
                    left -= c
                parts = tuple(parts)
            else:
                parts = rand_chunks(rng, n)
            data = rng.randbytes(n)
            enc = bool(rng.getrandbits(1))
            rp = {"kind": "mode", "mode": mode, "key": key.hex(), "iv": iv.hex() if iv is not None else None, "seg": seg, "ctr0": str(ctr0), "data": data.hex(), "parts": list(parts), "enc": enc}
            ctx.ev()
            ctx.bin("mode_" + mode)
            if mode == "cfb":
                ctx.bin("cfb_seg%d" % seg)
            if mode == "ctr":
                blocks = (n + 15) // 16
                if ctr0 + blocks > (1 << 128):
                    ctx.bin("ctr_wraparound")
                if (ctr0 & 0xFF) + blocks > 0xFF:
                    ctx.bin("ctr_carry")
            if 0 in parts:
                ctx.bin("empty_chunk")
            ctx.distinct("mode", mode, key, iv, seg, ctr0, data, parts, enc)
            direct_mode_case(ns, ctx, mode, key, iv, seg, ctr0, data, parts, enc, rp)
            if i < 3:
                ctx.sample({k: rp[k] for k in ("kind", "mode", "seg", "parts", "enc")} | {"len": n})
        return
    if kind == "feeder":
        modes = ("ecb", "cbc", "cfb", "ofb", "ctr")
        for i in range(spec["n"]):
            mode = modes[i % 5]
            key, iv, seg, ctr0 = gen_params(rng, mode)
            n = mode_len(rng, mode, seg)
            padding = "default" if i % 2 == 0 else "none"
            if padding == "none" and mode in ("ecb", "cbc"):
                n = max(16, n - n % 16)
            if padding == "none" and mode == "cfb":
                padding = "default"
            data = rng.randbytes(n)
            parts = rand_chunks(rng, n)
            rp = {"kind": "feeder", "mode": mode, "key": key.hex(), "iv": iv.hex() if iv is not None else None, "seg": seg, "ctr0": str(ctr0), "data": data.hex(), "parts": list(parts), "padding": padding}
            ctx.ev()
            ctx.bin("feeder_" + ("pkcs7" if padding == "default" else "none"))
            ctx.bin("mode_" + mode)
            if mode == "cfb":
                ctx.bin("cfb_seg%d" % seg)
            if 0 in parts:
                ctx.bin("empty_chunk")
            ctx.distinct("feeder", mode, key, iv, seg, ctr0, data, parts, padding)
            feeder_case(ns, ctx, mode, key, iv, seg, ctr0, data, parts, padding, rp)
            # stream helpers
            if i % 4 in (0, 3):
                bs = (1, 15, 16, 17, 8192)[(i // 4) % 5]
                ctx.bin("stream_bs%d" % bs)
                ctx.bin("stream_padding_" + padding)
                try:
                    short = (i // 20) % 2 == 1
                    if short:
                        ctx.bin("stream_with_short_reads")
                    out = io.BytesIO()
                    ns.blockfeeder.encrypt_stream(make_mode(ns, mode, key, iv, seg, ctr0), ShortReadStream(data, rng) if short else io.BytesIO(data), out, block_size=bs, padding=padding)
                    ct = out.getvalue()
                    out2 = io.BytesIO()
                    ns.blockfeeder.decrypt_stream(make_mode(ns, mode, key, iv, seg, ctr0), ShortReadStream(ct, rng) if short else io.BytesIO(ct), out2, block_size=bs, padding=padding)
                    ctx.mon("stream_helper", 2)
                    e = ns.blockfeeder.Encrypter(make_mode(ns, mode, key, iv, seg, ctr0), padding=padding)
                    one = e.feed(data) + e.feed()
                    if mode in ("ecb", "cbc"):
                        pd = data if padding == "none" else data + bytes([16 - n % 16]) * (16 - n % 16)
                        exp = ref_mode(mode, key, iv, seg, ctr0, pd, True)
                    else:
                        exp = ref_mode(mode, key, iv, seg, ctr0, data, True)
                    if ct != exp or one != exp:
                        ctx.violation("stream_encrypt_differs:" + mode, {"bs": bs, "len": n, "padding": padding}, rp)
                    elif out2.getvalue() != data:
                        ctx.violation("stream_decrypt_differs:" + mode, {"bs": bs, "len": n, "padding": padding}, rp)
                except Exception as ex:
                    ctx.violation("stream_helper_raises:" + mode, {"exc": fmt_exc(ex), "bs": bs, "len": n, "padding": padding}, rp)
        return
    if kind == "splits":
        # every composition of short inputs for stream modes (direct + feeder) and feeders of block modes
        ml = spec["maxlen"]
        for mode in ("ofb", "ctr", "cfb", "cbc", "ecb"):
            key, iv, seg, ctr0 = gen_params(rng, mode)
            if iv is None:
                iv = bytes(16)
            if mode == "cfb":
                seg = 1
            for n in range(0, ml + 1):
                data = rng.randbytes(n)
                for parts in compositions(n):
                    ctx.ev()
                    ctx.bin("all_compositions")
                    ctx.bin("mode_" + mode)
                    ctx.distinct("split", mode, n, parts)
                    rp = {"kind": "feeder", "mode": mode, "key": key.hex(), "iv": iv.hex(), "seg": seg, "ctr0": str(ctr0), "data": data.hex(), "parts": list(parts), "padding": "default"}
                    if mode in ("ofb", "ctr", "cfb"):
                        rp2 = dict(rp, kind="mode", enc=True)
                        direct_mode_case(ns, ctx, mode, key, iv, seg, ctr0, data, parts, True, rp2)
                    feeder_case(ns, ctx, mode, key, iv, seg, ctr0, data, parts, "default", rp)
        # longer inputs around the 16/32 byte buffering boundary: all 2-splits and 3-splits
        for mode in ("cbc", "ctr", "cfb"):
            key, iv, seg, ctr0 = gen_params(rng, mode)
            iv = iv or bytes(16)
            seg = 3 if mode == "cfb" else seg
            for n in (16, 17, 31, 32, 33, 48):
                data = rng.randbytes(n)
                for a in range(n + 1):
                    for b in range(a, n + 1, 1 if n <= 33 and ctx.tier != "quick" else 5):
                        parts = (a, b - a, n - b)
                        ctx.ev()
                        ctx.bin("all_compositions")
                        if 0 in parts:
                            ctx.bin("empty_chunk")
                        ctx.distinct("split3", mode, n, parts)
                        rp = {"kind": "feeder", "mode": mode, "key": key.hex(), "iv": iv.hex(), "seg": seg, "ctr0": str(ctr0), "data": data.hex(), "parts": list(parts), "padding": "default"}
                        feeder_case(ns, ctx, mode, key, iv, seg, ctr0, data, parts, "default", rp)
        return
    if kind == "threads":
        # adapter objects of several threads alive and working at the same time (same key and IV in half of the shards): the
        # threads are interleaved at every source line of the adapter and of the CBC mode code; every result against OpenSSL
        from ..sched import yieldrun

        codes = yieldrun.code_objects_of(ns.plugin.AES128Proxy, ns.aes.AESModeOfOperationCBC, ns.aes.AESBlockModeOfOperation)
        codes += [c_ for c_ in yieldrun.code_objects_of_module(ns.plugin) + yieldrun.code_objects_of(ns.aes, ns.blockfeeder) if c_ not in codes]  # module-level helpers and every class of these modules
        total_y = 0
        for rnd in range(spec["rounds"]):
            nthreads = (2, 3, 4)[rnd % 3]
            shared_key = rng.randbytes(16)
            keys = [shared_key if spec["same_key"] else rng.randbytes(16) for _ in range(nthreads)]
            datas = [rng.randbytes(rng.choice((16, 33, 64, 100))) for _ in range(nthreads)]

            one_object = spec["same_key"] and rnd % 2 == 1
            shared_obj = ns.crypto.create_AES128(shared_key) if one_object else None
            if one_object:
                ctx.bin("one_adapter_object_used_by_concurrent_threads")
                datas = [rng.randbytes(rng.choice((48, 100, 160, 400))) for _ in range(nthreads)]

            def body(i):
                def run():
                    a = shared_obj if one_object else ns.crypto.create_AES128(keys[i])
                    ct = a.encrypt(datas[i])
                    b = shared_obj if one_object else ns.crypto.create_AES128(keys[i])
                    return ct, b.decrypt(ct), a.mac(datas[i])
                return run

            res, y = yieldrun.run_concurrently([body(i) for i in range(nthreads)], codes, sleep=0.0001, max_yields=30000)
            total_y += y
            ctx.ev(nthreads)
            ctx.bin("adapter_objects_used_by_concurrent_threads")
            ctx.mon("adapter_call", 3 * nthreads)
            ctx.distinct("threads", rnd, keys, datas)
            rp = {"kind": "threads", "same_key": spec["same_key"], "threads": nthreads}
            for i, r in enumerate(res):
                padded = ossl.pad0(datas[i])
                exp = ossl.aes_cbc(keys[i], ossl.ZERO_IV, padded, True)
                if r is None:
                    ctx.note("thread_still_running_after_timeout(inconclusive)")
                elif r[0] == "exc":
                    ctx.violation("adapter_raises_under_concurrent_use", {"exc": r[1], "same_key": spec["same_key"]}, rp)
                elif r[1] != (exp, padded, exp[-16:]):
                    what = "encrypt" if r[1][0] != exp else "decrypt" if r[1][1] != padded else "mac"
                    ctx.violation("adapter_result_differs_under_concurrent_use:" + what, {"same_key": spec["same_key"], "threads": nthreads, "len": len(datas[i])}, rp)
        # ONE block-cipher / ECB object (no chaining state) shared by the threads
        codes2 = yieldrun.code_objects_of(ns.aes.AES, ns.aes.AESModeOfOperationECB)
        for rnd in range(spec["rounds"]):
            key = rng.randbytes((16, 24, 32)[rnd % 3])
            obj = ns.aes.AES(key) if rnd % 2 else ns.aes.AESModeOfOperationECB(key)
            blks = [rng.randbytes(16) for _ in range(3)]

            def body2(i):
                return lambda: (bytes(obj.encrypt(blks[i])), bytes(obj.decrypt(blks[i])))

            res, y = yieldrun.run_concurrently([body2(i) for i in range(3)], codes2, sleep=0.0001, max_yields=6000)
            total_y += y
            ctx.ev(3)
            ctx.bin("one_block_cipher_object_used_by_concurrent_threads")
            ctx.mon("AES.encrypt", 3)
            ctx.mon("AES.decrypt", 3)
            for i, r in enumerate(res):
                if r is not None and (r[0] == "exc" or r[1] != (ossl.aes_ecb(key, blks[i], True), ossl.aes_ecb(key, blks[i], False))):
                    ctx.violation("block_result_differs_when_one_object_is_used_by_concurrent_threads", {"object": type(obj).__name__, "keylen": len(key), "result": r[1] if r[0] == "exc" else "wrong block"}, {"kind": "threads", "same_key": spec["same_key"]})
                    break
        ctx.mon("line_yields_injected", total_y)
        ctx.sample({"kind": "threads", "rounds": spec["rounds"], "line_yields": total_y})
        return
    if kind == "adapter":
        before = snapshot_globals(ns)
        mk = ns.crypto.create_AES128
        for h in range(spec["n"]):
            # three adapter objects, two of them sharing key and IV
            k1, k2 = rng.randbytes(16), rng.randbytes(16)
            if rng.random() < 0.2:
                k1 = k1[:-1] + b"\0"
            iv1 = rng.randbytes(16) if rng.random() < 0.6 else None
            iv2 = rng.randbytes(16) if rng.random() < 0.5 else None
            objs = [(mk(k1, iv1), k1, iv1), (mk(k1, iv1), k1, iv1), (mk(k2, iv2), k2, iv2)]
            ctx.bin("adapter_shared_key_iv")
            ncalls = rng.randrange(2, 30 if ctx.tier == "quick" else 50)
            hist = []
            ctx.bin("adapter_history")
            for c in range(ncalls):
                oi = rng.randrange(3)
                obj, key, iv = objs[oi]
                eiv = iv if iv is not None else bytes(16)
                ctx.bin("adapter_explicit_iv" if iv is not None else "adapter_default_iv")
                op = rng.choice(("encrypt", "decrypt", "mac"))
                if op == "decrypt":
                    n = 16 * rng.randrange(1, 6)
                    if h % 6 == 2 and c == 1:
                        n = rng.choice((8176, 8192, 8208, 16400, 24592))
                        ctx.bin("adapter_long_data")
                    data = rng.randbytes(n)
                    if rng.random() < 0.5:
                        # ciphertext of a plaintext that ends in zero bytes
                        p = rng.randbytes(n - rng.randrange(1, 17)) + bytes(16)
                        data = ossl.aes_cbc(key, eiv, p[:n], True)
                        ctx.bin("adapter_trailing_zero_plaintext")
                    exp = ossl.aes_cbc(key, eiv, data, False)
                else:
                    n = rng.choice((1, 15, 16, 17, 31, 32, 33)) if rng.random() < 0.5 else rng.randrange(1, 100)
                    if h % 6 == 4 and c == 1:
                        n = rng.choice((8191, 8192, 8193, 16385, 20000))
                        ctx.bin("adapter_long_data")
                    data = rng.randbytes(n)
                    if rng.random() < 0.2:
                        data = data[: n // 2] + bytes(n - n // 2)
                    ctx.bin("adapter_len_mod16_%d" % (n % 16))
                    full = ossl.aes_cbc(key, eiv, ossl.pad0(data), True)
                    exp = full if op == "encrypt" else full[-16:]
                hist.append((oi, op, data.hex()))
                rp = {"kind": "adapter", "k1": k1.hex(), "k2": k2.hex(), "iv1": iv1.hex() if iv1 else None, "iv2": iv2.hex() if iv2 else None, "hist": hist}
                try:
                    got = getattr(obj, op)(data)
                except Exception as e:
                    ctx.violation("adapter_raises:" + op, {"exc": fmt_exc(e), "len": len(data), "call_index": c}, rp)
                    break
                ctx.mon("adapter_" + op)
                ctx.ev()
                ctx.distinct("adapter", key, iv, op, data)
                if got != exp:
                    first = len(hist) == 1
                    what = "adapter_%s_differs" % op
                    # is it history dependence? repeat on a fresh object
                    fresh = getattr(mk(key, iv), op)(data)
                    if fresh == exp:
                        what = "adapter_result_depends_on_earlier_calls:" + op
                    elif op == "decrypt" and exp.rstrip(b"\0") == got:
                        what = "adapter_decrypt_strips_trailing_zeros"
                    ctx.violation(what, {"len": len(data), "call_index": c, "got": got, "expected": exp}, rp)
                    break
                if op == "encrypt":
                    # decrypt returns exactly the zero-padded data that was encrypted
                    back = getattr(objs[rng.randrange(3) if False else oi][0], "decrypt")(got)
                    ctx.mon("adapter_decrypt")
                    if back != ossl.pad0(data):
                        ctx.violation("adapter_decrypt_not_inverse_of_encrypt" + (":strips_trailing_zeros" if back == ossl.pad0(data).rstrip(b"\0") else ""), {"len": len(data), "got": back, "expected": ossl.pad0(data)}, rp)
                        break
            if h == 0:
                ctx.sample({"kind": "adapter_history", "calls": [(o, op, d[:16]) for o, op, d in hist[:6]]})
        ctx.bin("global_state_unchanged")
        if snapshot_globals(ns) != before:
            ctx.violation("global_state_changed_by_cipher_calls", {}, {"kind": "adapter"})
        return


def replay(rec, ctx):
    ns = load()
    h = lambda v: bytes.fromhex(v) if v is not None else None
    k = rec["kind"]
    if k in ("mode", "feeder"):
        args = (rec["mode"], h(rec["key"]), h(rec["iv"]), rec["seg"], int(rec["ctr0"]), h(rec["data"]), tuple(rec["parts"]))
        ctx.ev()
        if k == "mode":
            direct_mode_case(ns, ctx, *args, rec["enc"], rec)
        else:
            feeder_case(ns, ctx, *args, rec["padding"], rec)
    elif k == "threads":
        run_shard({"kind": "threads", "rounds": 3, "same_key": bool(rec.get("same_key"))}, ctx)
    elif k == "block":
        key, blk = h(rec["key"]), h(rec["block"])
        ctx.ev()
        if bytes(ns.aes.AES(key).encrypt(blk)) != ossl.aes_ecb(key, blk):
            ctx.violation("block_encrypt_differs:key%d" % len(key), {}, rec)
        if bytes(ns.aes.AES(key).decrypt(blk)) != ossl.aes_ecb(key, blk, False):
            ctx.violation("block_decrypt_differs:key%d" % len(key), {}, rec)
    elif k == "adapter":
        mk = ns.crypto.create_AES128
        k1, k2, iv1, iv2 = h(rec["k1"]), h(rec["k2"]), h(rec["iv1"]), h(rec["iv2"])
        objs = [(mk(k1, iv1), k1, iv1), (mk(k1, iv1), k1, iv1), (mk(k2, iv2), k2, iv2)]
        for oi, op, d in rec["hist"]:
            obj, key, iv = objs[oi]
            data = bytes.fromhex(d)
            eiv = iv if iv is not None else bytes(16)
            ctx.ev()
            if op == "decrypt":
                exp = ossl.aes_cbc(key, eiv, data, False)
            else:
                full = ossl.aes_cbc(key, eiv, ossl.pad0(data), True)
                exp = full if op == "encrypt" else full[-16:]
            got = getattr(obj, op)(data)
            if got != exp:
                ctx.violation("adapter_%s_differs" % op, {"got": got, "expected": exp}, rec)
    else:
        run_shard({"kind": "tables"}, ctx)
        run_shard({"kind": "vectors"}, ctx)
