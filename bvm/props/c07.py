"""C07 - one fresh session key per file, wrapped identically by every auth block.

Monitors: Recorder hooks on the registered RNG (as bound in bec2file) and on the
registered private-key generator log every draw (history check: i-th file <-> i-th
draw, all distinct, one ephemeral key per ECC wrap); independent container / ECIES
models unwrap every block of every written header; model-built spliced headers with
two different keys must be rejected; pass-through blocks must survive a rewrite
byte for byte."""
import io

from ..ctx import fmt_exc
from ..gen import bec2 as GB
from ..gen import files as G
from ..load import load
from ..monitors import Recorder
from ..refs import container, ecies, ossl
from ..refs import layout as L

ID = "C07"
LEVEL = "exploration"
RULE = (
    "histories: sequences of Bec2File creations without explicit key (RNG draws recorded by a hook; also with a counting RNG substituted), "
    "repeated writes of the same object and of different objects with ECC blocks (key-generator calls and ephemeral points recorded); "
    "inputs: all 15 ordered block lists x decryptor subsets for read->write cycles (pass-through bytes), all ordered pairs/triples of block kinds "
    "spliced into one header around two different keys (body MAC'd under either). distinct = digest of the case / history index; non-trivial = every case"
)
ASSUMPTIONS = [
    "os.urandom collisions of 16 bytes are ignored (p < 2^-100)",
    "a spliced file is only required to be rejected when decryptors for both differing blocks are supplied",
    "the same construction with equal keys must be accepted (checked for every splice, so a reject is not vacuous)",
]
TIMEOUT = {"quick": 900, "thorough": 8 * 3600}
OPTIMIZED_SHARDS = ("splice00",)  # these shards also run under python -O
NSH = 16


def plan(tier, seed):
    q = tier == "quick"
    jobs = []
    for i in range(NSH):
        jobs.append({"name": "wrap%02d" % i, "spec": {"kind": "wrap", "n": 200 if q else 8000, "i": i}})
    for i in range(4 if q else NSH):
        jobs.append({"name": "fresh%02d" % i, "spec": {"kind": "fresh", "n": 1500 if q else 20000, "ecc": 300 if q else 6000}})
    for i in range(4 if q else NSH):
        jobs.append({"name": "splice%02d" % i, "spec": {"kind": "splice", "n": 100 if q else 3000, "i": i}})
    for i in range(2 if q else 8):
        jobs.append({"name": "threads%02d" % i, "spec": {"kind": "threads", "rounds": 3 if q else 40}})
    # another registered AES implementation (a CBC engine with a chaining register, on OpenSSL) and long-lived encryptor objects
    for i in range(2 if q else 8):
        jobs.append({"name": "engine%02d" % i, "spec": {"kind": "engine", "rounds": 40 if q else 1500}})
    return jobs


def mandatory_bins(tier):
    b = ["blocks_" + "+".join(l) for l in GB.all_block_lists()]
    b += ["session_key_drawn", "all_blocks_wrap_the_mac_key", "pass_through_rewrite", "rewrite_known_blocks_same_key", "creations_without_key", "counting_rng",
          "ecc_wrap", "ecc_rewrite_same_object", "ephemeral_points_distinct", "splice_accepted_when_keys_equal", "splice_body_under_first_key", "splice_body_under_second_key", "splice_triple", "splice_partial_decryptor_set", "splice_unopened_block_between", "read_with_encrypt_only_ecc_encryptor", "content_of_a_read_file_rewritten_under_a_fresh_key", "encrypted_component_under_the_wrapped_key", "foreign_blocks_of_unknown_kind"]
    b += ["splice_%s_%s" % (a, c) for a in GB.KINDS for c in GB.KINDS] + ["splice_two_ecc_blocks_for_two_selectors", "splice_block_wraps_a_prefix_of_the_key", "files_written_by_concurrent_threads", "registered_aes_is_a_chaining_engine", "encryptor_objects_reused_for_a_further_file", "one_encryptor_list_shared_by_concurrent_writers"]
    return b


def mandatory_monitors(tier):
    return ["hook:random_bytes", "hook:generate_private_key"]


class Hooks:
    def __init__(self, ns, ctx):
        self.draws = []
        self.gens = []
        self.rec1 = Recorder(ns.bec2file, "random_bytes", ctx, "hook:random_bytes", self._rng)
        self.rec2 = Recorder(ns.plugin.PrivateEccKeyProxy, "generate", ctx, "hook:generate_private_key", self._gen)

    def _rng(self, a, k, res, exc, tok):
        if exc is None:
            self.draws.append((a[0] if a else k.get("num_bytes"), bytes(res)))

    def _gen(self, a, k, res, exc, tok):
        if exc is None:
            pub = res.private_key.verifying_key.pubkey.point
            self.gens.append((int(pub.x()), int(pub.y())))

    def remove(self):
        self.rec2.remove()
        self.rec1.remove()


def open_all(ctx, specs, binary, rp, expect_key=None, model_comps=None):
    """unwrap every block of a written binary with the independent models; verify the
    directory MACs under that key. returns the common key or None"""
    try:
        blocks, pos = L.parse_bec2_header(binary)
    except L.LayoutError as e:
        ctx.violation("written_header_not_parsable:" + e.rule, {}, rp)
        return None
    keys = []
    if len(blocks) != len(specs) or [t for t, _ in blocks] != [GB.tag_of(s) for s in specs]:
        ctx.violation("written_header_block_list_differs", {"got": [t for t, _ in blocks], "expected": [GB.tag_of(s) for s in specs]}, rp)
        return None
    for s, (tag, val) in zip(specs, blocks):
        if s["kind"] == "unknown":
            if val != s["value"]:
                ctx.violation("foreign_block_not_written_unchanged", {"tag": tag, "got": val, "expected": s["value"]}, rp)
                return None
            continue
        try:
            k, attrs = GB.open_block_with_model(s, val)
        except Exception as e:
            ctx.violation("block_not_opened_by_independent_model:" + s["kind"], {"err": str(e)[:200]}, rp)
            return None
        keys.append(k)
    if len(set(keys)) > 1:
        ctx.violation("blocks_of_one_file_wrap_different_keys", {"keys": keys, "kinds": [s["kind"] for s in specs]}, rp)
        return None
    key = keys[0]
    try:
        ents = L.parse_body(binary, pos, key, True)
    except L.LayoutError as e:
        ctx.violation("wrapped_key_does_not_authenticate_the_directory:" + e.rule, {"key": key}, rp)
        return None
    if model_comps is not None:
        # ... and is the key the encrypted components are stored under
        try:
            content = L.content_of(ents, key)
        except L.LayoutError as e:
            ctx.violation("wrapped_key_does_not_decrypt_the_components:" + e.rule, {}, rp)
            return None
        for (d, blob, declared, enc), mc in zip(content, model_comps):
            if mc.encrypted:
                ctx.bin("encrypted_component_under_the_wrapped_key")
                if blob[: mc.declared] != mc.blob[: mc.declared]:
                    ctx.violation("wrapped_key_does_not_decrypt_the_components", {"got": blob[:32], "expected": mc.blob[:32]}, rp)
                    return None
    if expect_key is not None and key != expect_key:
        ctx.violation("blocks_wrap_a_key_other_than_the_files_session_key", {"wrapped": key, "session_key": expect_key}, rp)
        return None
    ctx.bin("all_blocks_wrap_the_mac_key")
    return key


def run_wrap(ns, ctx, spec):
    B = ns.bec2file
    rng = ctx.rng
    hooks = Hooks(ns, ctx)
    lists = GB.all_block_lists()
    eph_seen = set()
    try:
        for j in range(spec["n"]):
            idx = spec["i"] + NSH * j
            kinds = lists[idx % len(lists)]
            specs = GB.gen_blocks(rng, kinds, foreign=(idx % 3 == 1))
            if idx % 3 == 1:
                ctx.bin("foreign_blocks_of_unknown_kind")
            case = G.gen_case(rng, ncomp=rng.choice((0, 1, 2)))
            if idx % 2 == 0:
                from ..refs.layout import MComp

                secret = rng.randbytes(rng.choice((5, 16, 33)))
                case.comps.append(MComp([(0xC3, b"\x03"), (0xC2, b"\x02"), (0xC1, b"\x03"), (0xC5, b"\x01")], secret, len(secret), True))
            rp = {"kind": "wrap", "blocks": GB.spec_json(specs), "case": case.to_json()}
            ctx.bin("blocks_" + "+".join(kinds))
            ctx.ev()
            ctx.distinct("wrap", idx, GB.spec_json(specs))
            n0 = len(hooks.draws)
            g0 = len(hooks.gens)
            f = B.Bec2File(G.build_real(ns, case), GB.real_auth_blocks(ns, specs))  # no explicit key
            if len(hooks.draws) != n0 + 1 or hooks.draws[-1][0] != 16 or bytes(f.session_key) != hooks.draws[-1][1]:
                ctx.violation("session_key_is_not_a_fresh_16_byte_draw_of_the_registered_rng", {"draws_made": len(hooks.draws) - n0, "session_key": f.session_key}, rp)
                continue
            ctx.bin("session_key_drawn")
            key = bytes(f.session_key)
            try:
                binary = f.to_binary(GB.write_encryptors(ns, specs))
            except Exception as e:
                ctx.violation("writer_raises_on_object_in_domain", {"exc": fmt_exc(e)}, rp)
                continue
            necc = sum(1 for s in specs if s["kind"] == "ecc")
            if necc:
                ctx.bin("ecc_wrap")
                if len(hooks.gens) - g0 != necc:
                    ctx.violation("ecc_wrap_without_fresh_key_generation", {"generate_calls": len(hooks.gens) - g0, "ecc_blocks": necc}, rp)
            if open_all(ctx, specs, binary, rp, key, case.comps) is None:
                continue
            if necc:
                blocks, _ = L.parse_bec2_header(binary)
                for s, (t, v) in zip(specs, blocks):
                    if s["kind"] == "ecc":
                        _, pt, _ = ecies.parse_block(v)
                        if pt != hooks.gens[-1]:
                            ctx.violation("ephemeral_point_in_block_is_not_the_generated_key", {}, rp)
                        if pt in eph_seen:
                            ctx.violation("ephemeral_key_reused_across_writes", {}, rp)
                        eph_seen.add(pt)
                # the same object written again must use another ephemeral key
                g1 = len(hooks.gens)
                binary2 = f.to_binary(GB.write_encryptors(ns, specs))
                ctx.bin("ecc_rewrite_same_object")
                blocks2, _ = L.parse_bec2_header(binary2)
                for s, (t, v) in zip(specs, blocks2):
                    if s["kind"] == "ecc":
                        _, pt, _ = ecies.parse_block(v)
                        if pt in eph_seen or len(hooks.gens) != g1 + necc:
                            ctx.violation("ephemeral_key_reused_across_writes:same_object", {"generate_calls": len(hooks.gens) - g1}, rp)
                        eph_seen.add(pt)
                if open_all(ctx, specs, binary2, rp, key) is None:
                    continue
            # ---- read with a decryptor subset, write again: pass-through bytes --------------
            n = len(specs)
            op = GB.openable(specs)
            subsets = [frozenset(op[i] for i in range(len(op)) if m >> i & 1) for m in range(1, 1 << len(op))]
            subset = subsets[idx // len(lists) % len(subsets)]
            text = L.text_of(case.comments, binary)
            renc = GB.read_encryptors(ns, specs, subset)
            pubonly = []
            if idx % 3 != 2:
                # an encrypt-only EccEncryptor (public key only) for an unopened ECC block is NOT a matching decryptor:
                # the block must still be kept byte for byte
                for i2, s2 in enumerate(specs):
                    if s2["kind"] == "ecc" and i2 not in subset:
                        pubonly.append(B.EccEncryptor(s2["sel"], GB.private_key_obj(ns, s2["priv"]).public_key))
                        ctx.bin("read_with_encrypt_only_ecc_encryptor")
            renc = pubonly + renc
            try:
                back = B.Bec2File.read_file(io.StringIO(text), renc, True)
            except Exception as e:
                ctx.violation("reader_rejects_file_written_by_writer", {"exc": fmt_exc(e), "subset": sorted(subset)}, rp)
                continue
            try:
                known = [s for i, s in enumerate(specs) if i in subset]
                binary3 = back.to_binary(pubonly + GB.write_encryptors(ns, known))
            except Exception as e:
                ctx.violation("rewrite_raises", {"exc": fmt_exc(e), "subset": sorted(subset)}, rp)
                continue
            b1, _ = L.parse_bec2_header(binary)
            try:
                b3, pos3 = L.parse_bec2_header(binary3)
            except L.LayoutError as e:
                ctx.violation("rewritten_header_not_parsable:" + e.rule, {}, rp)
                continue
            if [t for t, _ in b3] != [t for t, _ in b1]:
                ctx.violation("rewrite_changes_block_list", {"before": [t for t, _ in b1], "after": [t for t, _ in b3]}, rp)
                continue
            ok = True
            for i, s in enumerate(specs):
                if i not in subset:
                    ctx.bin("pass_through_rewrite")
                    if b3[i][1] != b1[i][1]:
                        ctx.violation("pass_through_block_changed_on_rewrite:" + s["kind"], {"before": b1[i][1], "after": b3[i][1]}, rp)
                        ok = False
                else:
                    if s["kind"] == "unknown":
                        continue
                    try:
                        k3, _a = GB.open_block_with_model(s, b3[i][1])
                    except Exception as e:
                        ctx.violation("rewritten_block_not_opened_by_independent_model:" + s["kind"], {"err": str(e)[:200]}, rp)
                        ok = False
                        continue
                    ctx.bin("rewrite_known_blocks_same_key")
                    if k3 != key:
                        ctx.violation("rewritten_block_wraps_other_key:" + s["kind"], {"got": k3, "expected": key}, rp)
                        ok = False
            if ok:
                try:
                    L.parse_body(binary3, pos3, key, True)
                except L.LayoutError as e:
                    ctx.violation("rewritten_body_not_authentic_under_the_session_key:" + e.rule, {}, rp)
            # ---- the content that was read is put into a NEW file with a fresh key: everything must be under that key ----
            if ok and len(subset) == len(op):
                g0 = len(hooks.draws)
                f2 = B.Bec2File(back.bf3file, list(back.auth_blocks.values()))
                key2 = bytes(f2.session_key)
                ctx.bin("content_of_a_read_file_rewritten_under_a_fresh_key")
                try:
                    binary4 = f2.to_binary(GB.write_encryptors(ns, specs))
                except Exception as e:
                    ctx.violation("rewrite_under_fresh_key_raises", {"exc": fmt_exc(e)}, rp)
                    continue
                if key2 == key or len(hooks.draws) != g0 + 1:
                    ctx.violation("session_key_is_not_a_fresh_16_byte_draw_of_the_registered_rng", {"reused_key_of_read_file": key2 == key}, rp)
                open_all(ctx, specs, binary4, rp, key2, case.comps)
            if j == 0:
                ctx.sample({"kind": "wrap", "blocks": [s["kind"] for s in specs], "drawn_key": key, "reread_with": sorted(subset)})
        if eph_seen:
            ctx.bin("ephemeral_points_distinct", len(eph_seen))
    finally:
        hooks.remove()


def run_fresh(ns, ctx, spec):
    B = ns.bec2file
    rng = ctx.rng
    hooks = Hooks(ns, ctx)
    try:
        bf3 = ns.bf3file.Bf3File()
        seen = {}
        for i in range(spec["n"]):
            n0 = len(hooks.draws)
            shape = i % 3
            if shape == 0:
                f = B.Bec2File(bf3)
            elif shape == 1:
                f = B.Bec2File(bf3, [B.UpdateAuthBlock(bytes(8), i % 256)], None)
            else:
                f = B.Bec2File(ns.bf3file.Bf3File({"i": str(i)}), (), session_key=None)
            ctx.ev()
            ctx.bin("creations_without_key")
            ctx.distinct("fresh", i)
            k = bytes(f.session_key)
            if len(hooks.draws) != n0 + 1 or hooks.draws[-1] != (16, k):
                ctx.violation("session_key_is_not_a_fresh_16_byte_draw_of_the_registered_rng", {"creation": i, "draws_made": len(hooks.draws) - n0}, {"kind": "fresh"})
                break
            if k in seen:
                ctx.violation("two_files_created_without_key_share_the_session_key", {"creations": [seen[k], i]}, {"kind": "fresh"})
                break
            seen[k] = i
            # an explicit key must be taken as is and draw nothing
            if i % 50 == 0:
                n1 = len(hooks.draws)
                ek = rng.randbytes(16) if i % 100 else bytes(16)
                f2 = B.Bec2File(bf3, (), ek)
                if bytes(f2.session_key) != ek:
                    ctx.violation("explicit_session_key_not_used", {"given": ek, "got": f2.session_key}, {"kind": "fresh"})
        # counting RNG substituted through the public registration API
        counter = [0]

        def counting(nbytes):
            counter[0] += 1
            return counter[0].to_bytes(nbytes, "big")

        old = None
        try:
            ns.crypto.register_random_bytes(counting)
            for i in range(1, 301):
                f = B.Bec2File(bf3)
                ctx.ev()
                ctx.bin("counting_rng")
                ctx.distinct("counting", i)
                if bytes(f.session_key) != i.to_bytes(16, "big") or counter[0] != i:
                    ctx.violation("session_key_not_taken_from_the_registered_rng_at_creation", {"creation": i, "got": f.session_key, "rng_calls": counter[0]}, {"kind": "fresh"})
                    break
        finally:
            ns.crypto.register_random_bytes(ns.plugin.random_bytes)
        # many ECC wraps: ephemeral points pairwise distinct, one generation per wrap
        pts = set()
        recipient = GB.gen_block_spec(rng, "ecc")
        enc = [GB.encryptor_for(ns, recipient, False)]
        f = B.Bec2File(bf3, [B.InitEccAuthBlock(recipient["sel"])], rng.randbytes(16))
        for i in range(spec["ecc"]):
            g0 = len(hooks.gens)
            if i % 2:
                f = B.Bec2File(bf3, [B.InitEccAuthBlock(recipient["sel"])], rng.randbytes(16))
            binary = f.to_binary(enc)
            ctx.ev()
            ctx.bin("ecc_wrap")
            ctx.distinct("eccwrap", i)
            blocks, _ = L.parse_bec2_header(binary)
            _, pt, _ = ecies.parse_block(blocks[0][1])
            if len(hooks.gens) != g0 + 1 or hooks.gens[-1] != pt:
                ctx.violation("ecc_wrap_without_fresh_key_generation", {"generate_calls": len(hooks.gens) - g0}, {"kind": "fresh"})
                break
            if pt in pts:
                ctx.violation("ephemeral_key_reused_across_writes", {"write": i}, {"kind": "fresh"})
                break
            pts.add(pt)
        ctx.bin("ephemeral_points_distinct", len(pts))
        ctx.sample({"kind": "fresh", "creations": spec["n"], "first_draws": [d[1] for d in hooks.draws[:2]], "ecc_wraps": len(pts)})
    finally:
        hooks.remove()


def model_block(rng, s, key):
    if s["kind"] == "cust":
        return container.wrap(s["key"], (s["ck"] if s["ck"] is not None else bytes(10)) + key)
    if s["kind"] == "update":
        return container.wrap(container.security_code_key(s["code"]), key + bytes((s["version"],)))
    return ecies.make_block(s["sel"], rng.randrange(1, ecies.P256_N), ecies.pub_of(s["priv"]), key)


def run_splice(ns, ctx, spec):
    B = ns.bec2file
    rng = ctx.rng
    # pairs of different kinds, and pairs of the SAME kind (two ECC blocks for two recipients or for one, two customer-key /
    # update blocks under one wrapping key): the reader can open both, so differing keys must be noticed there too
    combos = [(a, c) for a in GB.KINDS for c in GB.KINDS if a != c] + [(a, a) for a in GB.KINDS]
    triples = [k for k in GB.all_block_lists() if len(k) == 3]
    for j in range(spec["n"]):
        idx = spec["i"] + 16 * j
        triple = idx % 5 == 4
        kinds = triples[idx % len(triples)] if triple else combos[idx % len(combos)]
        specs = GB.gen_blocks(rng, kinds)
        if len(kinds) == 2 and kinds[0] == kinds[1]:
            if kinds[0] == "ecc" and idx % 2:
                specs[1]["sel"] = (specs[0]["sel"] + rng.randrange(1, 4)) % 4  # two recipients
                ctx.bin("splice_two_ecc_blocks_for_two_selectors")
            else:
                specs[1] = dict(specs[0])  # same wrapping key / recipient: one decryptor opens both
        case = G.gen_case(rng, ncomp=rng.choice((0, 1, 2)))
        k1, k2 = rng.randbytes(16), rng.randbytes(16)
        if idx % 7 == 0:  # keys that differ in a single bit
            kk = bytearray(k1)
            kk[rng.randrange(16)] ^= 1 << rng.randrange(8)
            k2 = bytes(kk)
        odd = rng.randrange(len(specs))  # the block that wraps the other key
        body_first = idx % 2 == 0
        rp = {"kind": "splice", "blocks": GB.spec_json(specs), "case": case.to_json(), "k1": k1.hex(), "k2": k2.hex(), "odd": odd, "body_first": body_first}
        for equal in (True, False):
            keys = [k1 if (equal or i != odd) else k2 for i in range(len(specs))]
            kbody = k1 if (equal or body_first) else k2
            blocks = [(GB.TAGS[s["kind"]], model_block(rng, s, k)) for s, k in zip(specs, keys)]
            binary = L.serialise_bec2(case.comps, kbody, blocks)
            text = L.text_of(case.comments, binary)
            # partial decryptor sets: whenever the supplied decryptors open two blocks that wrap
            # different keys the file must be rejected - also with an unopened block in between
            if not equal and len(specs) >= 2:
                nb = len(specs)
                for m in range(1, (1 << nb) - 1):
                    sub = frozenset(i for i in range(nb) if m >> i & 1)
                    if len({keys[i] for i in sub}) < 2:
                        continue
                    for cm in (True, False):
                        ctx.ev()
                        ctx.bin("splice_partial_decryptor_set")
                        if nb == 3 and sub == frozenset((0, 2)):
                            ctx.bin("splice_unopened_block_between")
                        try:
                            r2 = B.Bec2File.read_file(io.StringIO(text), GB.read_encryptors(ns, specs, sub), cm)
                            ctx.violation("file_whose_blocks_wrap_different_keys_accepted:partial_decryptor_set", {"kinds": kinds, "odd_block": odd, "decryptors_for": sorted(sub), "check_cmac": cm, "returned_key": r2.session_key}, rp)
                        except Exception as e:
                            ctx.exc(e)
                        ctx.mon("reader_decision_on_splice")
            ctx.ev()
            ctx.distinct("splice", idx, equal)
            try:
                res = B.Bec2File.read_file(io.StringIO(text), GB.read_encryptors(ns, specs), True)
                err = None
            except Exception as e:
                res, err = None, e
                ctx.exc(e)
            ctx.mon("reader_decision_on_splice")
            if equal:
                if res is None:
                    # the construction itself must be sound, otherwise rejects below mean nothing
                    ctx.violation("model_built_file_with_one_key_rejected", {"exc": fmt_exc(err), "kinds": kinds}, rp)
                    break
                ctx.bin("splice_accepted_when_keys_equal")
            else:
                if triple:
                    ctx.bin("splice_triple")
                else:
                    ctx.bin("splice_%s_%s" % kinds)
                ctx.bin("splice_body_under_first_key" if body_first else "splice_body_under_second_key")
                if res is not None:
                    ctx.violation("file_whose_blocks_wrap_different_keys_accepted", {"kinds": kinds, "odd_block": odd, "body_under": "k1" if body_first else "k2", "returned_key": res.session_key}, rp)
        if idx % 3 == 1:
            # a customer-key block whose container holds only a PREFIX of the key the other block wraps (0, 1, 4, 15 bytes):
            # the unwrapped keys differ (in length), so the file must be rejected just the same
            other = ("update", "ecc")[(idx // 3) % 2]
            order = ("cust", other) if (idx // 6) % 2 else (other, "cust")
            sp = GB.gen_blocks(rng, order)
            for s_ in sp:
                if s_["kind"] == "cust":
                    s_["ck"], s_["pos"] = None, None
            k = (0, 1, 4, 15)[(idx // 12) % 4]
            blocks = [(GB.TAGS[s_["kind"]], container.wrap(s_["key"], k1[:k]) if s_["kind"] == "cust" else model_block(rng, s_, k1)) for s_ in sp]
            text = L.text_of(case.comments, L.serialise_bec2(case.comps, k1, blocks))
            ctx.ev()
            ctx.bin("splice_block_wraps_a_prefix_of_the_key")
            ctx.distinct("splice_prefix", idx, k)
            for cm in (True, False):
                try:
                    res = B.Bec2File.read_file(io.StringIO(text), GB.read_encryptors(ns, sp), cm)
                    ctx.violation("file_whose_blocks_wrap_different_keys_accepted:shorter_key_that_is_a_prefix", {"kinds": order, "prefix_len": k, "check_cmac": cm, "returned_key": res.session_key},
                                  {"kind": "splice", "blocks": GB.spec_json(sp), "k1": k1.hex(), "prefix_len": k})
                except Exception as e:
                    ctx.exc(e)
                ctx.mon("reader_decision_on_splice")
        if j == 0:
            ctx.sample({"kind": "splice", "blocks": list(kinds), "odd_block": odd})


def run_threads(ns, ctx, spec):
    """files with an ECC block and an update / customer-key block written by several threads at the same time (line-level
    interleaving inside the writer, the crypto plug-in's key classes and the ECC encryptor): in every file all blocks must wrap
    the key that authenticates its directory"""
    from ..sched import yieldrun

    B = ns.bec2file
    rng = ctx.rng
    codes = yieldrun.code_objects_of(ns.plugin.PrivateEccKeyProxy, ns.plugin.PublicEccKeyProxy, B.EccEncryptor, B.EccDecryptor, B.InitEccAuthBlock, B.Bec2File, B.UpdateAuthBlock, B.AesEncryptorMixin)
    codes += [c_ for c_ in yieldrun.code_objects_of_module(ns.bec2file, ns.crypto, ns.plugin) if c_ not in codes]  # module-level helpers and every class of these modules
    total = 0
    eph_points = set()
    for rnd in range(spec["rounds"]):
        nthreads = (2, 3)[rnd % 2]
        all_specs = [GB.gen_blocks(rng, rng.choice((("ecc", "update"), ("update", "ecc"), ("ecc", "cust"), ("ecc",)))) for _ in range(nthreads)]
        keys = [rng.randbytes(16) for _ in range(nthreads)]
        cases = [G.gen_case(rng, ncomp=1) for _ in range(nthreads)]

        shared_encs = None
        if rnd % 2 == 1:
            # ONE list of encryptor objects (one EccEncryptor among them) handed to every writing thread
            all_specs = [all_specs[0]] * nthreads
            shared_encs = GB.write_encryptors(ns, all_specs[0])
            ctx.bin("one_encryptor_list_shared_by_concurrent_writers")

        def body(i):
            def run():
                f = B.Bec2File(G.build_real(ns, cases[i]), GB.real_auth_blocks(ns, all_specs[i]), keys[i])
                return f.to_binary(shared_encs if shared_encs is not None else GB.write_encryptors(ns, all_specs[i]))
            return run

        res, y = yieldrun.run_concurrently([body(i) for i in range(nthreads)], codes, sleep=0.0003, max_yields=6000)
        total += y
        ctx.ev(nthreads)
        ctx.bin("files_written_by_concurrent_threads")
        ctx.distinct("threads", rnd, keys)
        for i, r in enumerate(res):
            rp = {"kind": "threads", "blocks": GB.spec_json(all_specs[i]), "key": keys[i].hex()}
            if r is None:
                ctx.note("thread_still_running_after_timeout(inconclusive)")
                continue
            if r[0] == "exc":
                if not any(len(c.desc_bytes()) > 210 for c in cases[i].comps):
                    ctx.violation("writer_raises_on_object_in_domain", {"exc": r[1], "concurrent": True}, rp)
                continue
            try:
                blocks, pos = L.parse_bec2_header(r[1])
                L.parse_body(r[1], pos, keys[i], True)
                got = [GB.open_block_with_model(s_, bytes(v))[0] for s_, (t, v) in zip(all_specs[i], blocks)]
            except Exception as e:
                ctx.violation("blocks_of_one_file_wrap_different_keys", {"how": "written_by_concurrent_threads", "err": fmt_exc(e) if not isinstance(e, (L.LayoutError, container.FrameError, ecies.EciesError)) else str(e)}, rp)
                continue
            ctx.mon("all_blocks_opened_by_model")
            if any(bytes(k_) != keys[i] for k_ in got):
                ctx.violation("blocks_of_one_file_wrap_different_keys", {"how": "written_by_concurrent_threads", "keys": got}, rp)
            for s_, (t, v) in zip(all_specs[i], blocks):
                if s_["kind"] == "ecc":
                    pt = ecies.parse_block(bytes(v))[1]
                    if pt in eph_points:
                        ctx.violation("ephemeral_key_reused_across_writes:concurrent_threads", {"shared_encryptor_list": shared_encs is not None}, rp)
                    eph_points.add(pt)
    ctx.mon("line_yields_injected", total)
    ctx.sample({"kind": "threads", "rounds": spec["rounds"], "line_yields": total})


def make_engine_aes(ns):
    """an AES-128 plug-in of the hardware-engine kind: `iv` is the chaining register of the unit - it is what the next call starts from
    and it advances with every call (the library sets it before every use of a long-lived cipher).  Built on OpenSSL, not on pyaes."""

    class EngineAES(ns.crypto.AES128):
        calls = [0]

        def __init__(self, key, iv=None):
            self._key = bytes(key)
            self.iv = bytes(16) if iv is None else bytes(iv)

        def encrypt(self, data):
            if len(data) == 0:
                raise ValueError("cannot encrypt empty data")
            EngineAES.calls[0] += 1
            ct = ossl.aes_cbc(self._key, bytes(self.iv), ossl.pad0(bytes(data)), True)
            self.iv = ct[-16:]
            return ct

        def decrypt(self, data):
            if len(data) == 0 or len(data) % 16:
                raise ValueError("ciphertext is not a whole number of AES blocks")
            EngineAES.calls[0] += 1
            pt = ossl.aes_cbc(self._key, bytes(self.iv), bytes(data), False)
            self.iv = bytes(data[-16:])
            return pt

        def mac(self, data):
            return self.encrypt(data)[-16:]

    return EngineAES


def run_engine(ns, ctx, spec):
    """Sequences of files written with ONE list of encryptor objects (and read with one list of decryptor objects) while the registered
    AES implementation is a chaining CBC engine: in every file of the sequence all blocks wrap the file's session key."""
    import io

    B = ns.bec2file
    rng = ctx.rng
    Engine = make_engine_aes(ns)
    ns.crypto.register_AES128(Engine)
    try:
        for rnd in range(spec["rounds"]):
            kinds = rng.choice((("cust", "update"), ("update", "cust"), ("cust",), ("update",), ("ecc", "update"), ("cust", "ecc", "update")))
            specs = GB.gen_blocks(rng, kinds)
            wenc = GB.write_encryptors(ns, specs)
            renc = GB.read_encryptors(ns, specs)
            for n in range(rng.choice((2, 3, 5))):
                case = G.gen_case(rng, ncomp=rng.choice((0, 1, 2)))
                if n % 2 == 0:
                    from ..refs.layout import MComp

                    secret = rng.randbytes(rng.choice((5, 16, 33)))
                    case.comps.append(MComp([(0xC3, b"\x03"), (0xC2, b"\x02"), (0xC1, b"\x03"), (0xC5, b"\x01")], secret, len(secret), True))
                key = rng.randbytes(16)
                rp = {"kind": "engine", "blocks": GB.spec_json(specs), "file_number_with_these_encryptor_objects": n}
                ctx.ev()
                ctx.bin("registered_aes_is_a_chaining_engine")
                ctx.distinct("engine", rnd, n, key)
                if n:
                    ctx.bin("encryptor_objects_reused_for_a_further_file")
                try:
                    f = B.Bec2File(G.build_real(ns, case), GB.real_auth_blocks(ns, specs), key)
                    binary = f.to_binary(wenc)
                except Exception as e:
                    if any(len(c.desc_bytes()) > 210 for c in case.comps):
                        continue
                    ctx.violation("writer_raises_on_object_in_domain", {"exc": fmt_exc(e), "aes": "chaining engine"}, rp)
                    break
                if open_all(ctx, specs, binary, rp, key, case.comps) is None:
                    break
                try:
                    g = B.Bec2File.read_file(io.StringIO(L.text_of(case.comments, binary)), renc)
                    ctx.mon("read_with_reused_decryptor_objects")
                    if bytes(g.session_key) != key:
                        ctx.violation("reader_recovers_other_session_key", {"got": g.session_key, "expected": key, "aes": "chaining engine"}, rp)
                        break
                except Exception as e:
                    ctx.violation("reader_rejects_file_whose_blocks_all_wrap_its_key", {"exc": fmt_exc(e), "aes": "chaining engine", "file_number": n}, rp)
                    break
        ctx.mon("engine_aes_calls", Engine.calls[0])
    finally:
        ns.crypto.register_AES128(ns.plugin.AES128Proxy)


def run_shard(spec, ctx):
    ns = load()
    k = spec["kind"]
    if k == "engine":
        run_engine(ns, ctx, spec)
        return
    if k == "threads":
        run_threads(ns, ctx, spec)
        return
    if k == "wrap":
        run_wrap(ns, ctx, spec)
    elif k == "fresh":
        run_fresh(ns, ctx, spec)
    else:
        run_splice(ns, ctx, spec)


def replay(rec, ctx):
    ns = load()
    k = rec.get("kind")
    if k == "threads":
        run_threads(ns, ctx, {"rounds": 3})
    elif k == "engine":
        run_engine(ns, ctx, {"rounds": 40})
    elif k == "splice":
        run_splice(ns, ctx, {"n": 40, "i": 0})
    elif k == "fresh":
        run_fresh(ns, ctx, {"n": 200, "ecc": 20})
    else:
        run_wrap(ns, ctx, {"n": 45, "i": 0})
