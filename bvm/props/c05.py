"""C05 - the reader accepts a binary exactly when it is well-formed and authentic.

Oracle: bvm.refs.layout.parse_bf3 (independent validator, OpenSSL MACs); the real
reader's accept/reject decision and returned content are compared with it on valid
files and on structured edits with MACs recomputed (bvm.gen.edits)."""
import io

from ..ctx import fmt_exc
from ..gen import edits as E
from ..gen import files as G
from ..load import load
from ..refs import container
from ..refs import layout as L
from ..refs.layout import MComp

ID = "C05"
LEVEL = "exploration"
RULE = (
    "case = (valid file, structured edit, key given to the reader); ~50 edit kinds per file (addresses, stored/declared lengths, duplicate and "
    "overlong tags, description/entry/directory sizes, sentinel, entry order with and without re-indexed MACs, MAC index base, trailing bytes, "
    "signature, structural truncations, payload cut that keeps the zero-padded MAC valid, wrong key), MACs recomputed so that only the rule under "
    "test is broken; the independent validator names the broken rule, the real reader must reject exactly then, and for accepted input return "
    "what the fields say. distinct = digest of (binary, key); non-trivial = every case"
)
ASSUMPTIONS = [
    "declared length >= 1 throughout (the object model cannot represent 0)",
    "any exception of the reader = reject (type is C14's business)",
    "the validator is the property's rule list written independently; its own sanity is checked per edit (the named rule must be the one it reports)",
]
TIMEOUT = {"quick": 900, "thorough": 6 * 3600}
OPTIMIZED_SHARDS = ("edit00", "edit01")  # these shards also run under python -O
NSH = 16

EDIT_NAMES = [
    "valid", "address_plus1", "address_minus1", "address_relative_to_body", "address_relative_to_first_payload", "stored_plus1_bytes_not_moved", "stored_minus1_bytes_not_moved",
    "declared_exceeds_stored", "declared_0x80000000", "declared_0xffffffff", "declared_0x80000000_plus_len", "stored_and_declared_top_bit_set", "stored_0xffffffff", "declared_equals_stored", "declared_one", "duplicate_tag_adjacent", "duplicate_tag_distant", "duplicate_tag_first_value_empty", "duplicate_tag_both_values_empty", "tag_length_past_description",
    "tag_without_length_byte", "description_length_plus1", "description_length_minus1", "entry_length_plus1", "entry_length_minus1", "entry_with_extra_byte_before_mac", "entry_extra_byte_after_mac_selfconsistent",
    "entry_mac_index_base0", "entry_mac_index_plus1", "entries_swapped_reindexed", "entries_swapped_not_reindexed", "payload_mac_bit_flip", "payload_mac_wrong_entry_mac_recomputed", "entry_mac_bit_flip",
    "payload_bit_flip", "stored_zero", "last_payload_cut_trailing_zero_mac_still_matches", "read_with_other_key", "directory_size_+1", "directory_size_-1",
    "sentinel_omitted_sizes_consistent", "sentinel_duplicated", "byte_after_sentinel_in_directory", "sentinel_replaced_by_01", "trailing_00", "trailing_ff",
    "signature_changed", "cut_after_signature", "cut_inside_dirsize", "cut_after_dirsize", "cut_last_byte", "addresses_swapped",
]


def plan(tier, seed):
    n = 1920 if tier == "quick" else 96000
    return [{"name": "edit%02d" % i, "spec": {"n": n // NSH}} for i in range(NSH)]


def mandatory_bins(tier):
    return ["edit:" + e for e in EDIT_NAMES] + ["valid_accepted", "encrypted_component", "zero_components", "via_from_binary", "via_read_file", "plain_component_with_other_enc_tag_value", "edit:valid_description_of_210_bytes", "edit:valid_many_components", "edit:payload_mac_made_under_a_key_read_earlier", "mac_check_off", "bec2_header_edit:valid", "bec2_header_edit:terminator_removed", "bec2_header_edit:header_cut_at_inside_header", "bec2_header_edit:block_after_terminator"]


# rules a reader has to enforce whether or not it verifies MACs (truncations are left out: what a cut file looks like to the
# structural parser depends on where the cut falls)
STRUCTURAL_RULES = {"declared_exceeds_stored", "duplicate_tag", "address_not_absolute_contiguous", "trailing_bytes", "signature", "description_tlv_truncated", "entry_length_vs_description_length", "bytes_after_sentinel_in_directory"}


def finish(agg, tier):
    if agg["bins"].get("valid_accepted", 0) < 1000:
        agg["bins"]["valid_accepted_ge_1000"] = 0
    return {}


def reader_decision(ns, binary, key, via, check_cmac=True):
    BF = ns.bf3file
    try:
        if via == "read_file":
            obj = BF.Bf3File.read_file(io.StringIO(L.text_of([], binary)), check_cmac, key)
        else:
            rdr = ns.bytes_reader.BytesReader(binary, "BF3 files Binary Data")
            sig = rdr.read(len(L.BF3_SIG))
            if sig != L.BF3_SIG:
                raise ValueError("signature")
            obj = BF.Bf3File.from_binary(rdr, {}, check_cmac, key)
        return obj, None
    except Exception as e:
        return None, e


def judge(ns, ctx, name, expected_rule, binary, key, via, rp):
    ctx.ev()
    ctx.bin("edit:" + name)
    ctx.bin("via_" + via)
    ctx.distinct(binary, key)
    try:
        ents = L.parse_bf3(binary, key, True)
        vrule = None
    except L.LayoutError as e:
        ents = None
        vrule = e.rule
    # generator sanity (never a verdict about the code under test)
    if expected_rule is None and vrule is not None:
        raise AssertionError("harness: edit %s meant to be valid, validator says %s" % (name, vrule))
    if expected_rule not in (None, "*") and vrule != expected_rule:
        raise AssertionError("harness: edit %s meant to break %s, validator says %s" % (name, expected_rule, vrule))
    if expected_rule == "*" and vrule is None:
        raise AssertionError("harness: edit %s meant to be invalid, validator accepts" % name)
    obj, exc = reader_decision(ns, binary, key, via)
    ctx.mon("reader_decision")
    if exc is not None:
        ctx.exc(exc)
    if vrule is None:
        if obj is None:
            ctx.violation("reader_rejects_well_formed_authentic_binary:" + name, {"exc": fmt_exc(exc), "via": via}, rp)
            return
        ctx.bin("valid_accepted")
        want = L.content_of(ents, key)
        if len(obj.components) != len(want):
            ctx.violation("accepted_content_differs_from_fields:component_count", {"edit": name}, rp)
            return
        for c, (d, blob, declared, enc) in zip(obj.components, want):
            if dict(c.description) != d or c.actual_len != declared or bool(c.encrypt_by_session_key) != enc or bytes(c.blob) != blob:
                what = "description" if dict(c.description) != d else "declared_length" if c.actual_len != declared else "encryption_flag_or_plaintext" if enc else "blob"
                ctx.violation("accepted_content_differs_from_fields:" + what, {"edit": name, "via": via}, rp)
                return
    else:
        if obj is not None:
            ctx.violation("reader_accepts_binary_breaking_rule:" + vrule, {"edit": name, "via": via, "components_returned": len(obj.components)}, rp)
    # the same binary with MAC checking switched OFF: the structural rules do not depend on the MACs, so whatever the
    # validator finds wrong with the MAC rules ignored must still be refused, and accepted input still returns what the fields say
    try:
        ents2 = L.parse_bf3(binary, key, False)
        srule = None
    except L.LayoutError as e:
        ents2, srule = None, e.rule
    obj2, exc2 = reader_decision(ns, binary, key, via, False)
    ctx.mon("reader_decision")
    ctx.bin("mac_check_off")
    if srule is not None and obj2 is not None and srule in STRUCTURAL_RULES:
        ctx.violation("reader_with_mac_check_off_accepts_binary_breaking_rule:" + srule, {"edit": name, "via": via}, rp)
    elif srule is None and obj2 is not None and ents2 is not None:
        for c, e_ in zip(obj2.components, ents2):
            if c.actual_len != e_.declared or len(obj2.components) != len(ents2):
                ctx.violation("accepted_content_differs_from_fields:mac_check_off", {"edit": name, "via": via}, rp)
                break


def gen_valid(rng):
    case = G.gen_case(rng, ncomp=rng.choice((0, 1, 1, 2, 3)))
    if rng.random() < 0.3:
        blob = G.gen_payload(rng)
        case.comps.append(MComp([(0xC3, b"\x03"), (0xC2, b"\x02"), (0xC1, b"\x03"), (0xC5, b"\x01")], blob, len(blob), True))
    # a last payload that ends in zero bytes, often
    if case.comps and rng.random() < 0.5 and not case.comps[-1].encrypted:
        c = case.comps[-1]
        ln = rng.choice((2, 5, 15, 18, 33))
        c.blob = rng.randbytes(ln - 1).replace(b"\0", b"\1") + b"\0"
        c.declared = min(c.declared, len(c.blob)) or 1
    if case.comps and rng.random() < 0.35:
        c = case.comps[rng.randrange(len(case.comps))]
        if not c.encrypted and all(t != 0xC2 for t, _ in c.desc):
            c.desc = c.desc[:3] + [(0xC2, rng.choice(G.ENC_VARIANTS))]
    for c in case.comps:
        # keep some room so that tag edits fit
        if len(c.desc_bytes()) > 200:
            c.desc = c.desc[:1]
            if len(c.desc_bytes()) > 200:
                c.desc = []
    return case


def run_file(ns, ctx, case, key, first=False):
    def factory():
        return E.Spec(case.comps, key)

    if not case.comps:
        ctx.bin("zero_components")
    if any(c.encrypted for c in case.comps):
        ctx.bin("encrypted_component")
    if any((not c.encrypted) and any(t == 0xC2 for t, _ in c.desc) for c in case.comps):
        ctx.bin("plain_component_with_other_enc_tag_value")
    k = 0
    for name, rule, binary, rkey in E.edits_for(factory, ctx.rng):
        rp = {"case": case.to_json(), "key": key.hex(), "edit": name, "binary": binary.hex() if len(binary) < 3000 else None, "rkey": rkey.hex()}
        via = "read_file" if k % 2 == 0 else "from_binary"
        k += 1
        judge(ns, ctx, name, rule, binary, rkey, via, rp)
        if first and name == "duplicate_tag_adjacent":
            ctx.sample({"edit": name, "binary": binary, "key": rkey})


def bec2_header_edits(ns, ctx, rng, case, key):
    """the BEC2 framing of the same rules: the header is a TLV list closed by 00 00 whose lengths must match the bytes present;
    a header that is cut, whose lengths are off by one, or whose terminator is missing / altered is not well-formed.  Oracle:
    the reader rejects, or (where the damage is not bound to anything) returns exactly the original content and key."""
    B = ns.bec2file
    ck = rng.randbytes(16)
    code = rng.randbytes(8)
    blocks = [(1, container.wrap(ck, bytes(10) + key)), (2, container.wrap(container.security_code_key(code), key + b"\x07"))]
    if rng.random() < 0.5:
        blocks.reverse()
    good = L.serialise_bec2(case.comps, key, blocks)
    hlen = len(L.BEC2_SIG) + sum(2 + len(v) for _, v in blocks) + 2
    encs = [B.SoftwareCustKeyEncryptor(ck), B.ConfigSecurityCodeEncryptor(code)]
    want = L.content_of(L.parse_body(good, hlen, key), key)

    def variants():
        yield "valid", good
        for cut in sorted({len(L.BEC2_SIG), len(L.BEC2_SIG) + 1, len(L.BEC2_SIG) + 2, hlen - 3, hlen - 2, hlen - 1, hlen, hlen + 1, hlen + 3}):
            yield "header_cut_at_%s" % ("end_of_header" if cut == hlen else "inside_header" if cut < hlen else "inside_dirsize"), good[:cut]
        p0 = len(L.BEC2_SIG) + 1
        yield "first_block_length_plus1", good[:p0] + bytes((good[p0] + 1,)) + good[p0 + 1 :]
        yield "first_block_length_minus1", good[:p0] + bytes((good[p0] - 1,)) + good[p0 + 1 :]
        yield "terminator_removed", good[: hlen - 2] + good[hlen:]
        yield "terminator_00_01", good[: hlen - 1] + b"\x01" + good[hlen:]
        yield "terminator_duplicated", good[:hlen] + b"\x00\x00" + good[hlen:]
        yield "block_after_terminator", good[:hlen] + b"\x05\x01\xaa" + good[hlen:]

    for name, binary in variants():
        ctx.ev()
        ctx.bin("bec2_header_edit:" + name)
        ctx.distinct("bec2hdr", name, binary)
        rp = {"case": case.to_json(), "key": key.hex(), "edit": "bec2_header:" + name, "binary": binary.hex() if len(binary) < 3000 else None, "rkey": key.hex()}
        for cm in (True, False):
            try:
                res = B.Bec2File.read_file(io.StringIO(L.text_of([], binary)), encs, cm)
            except Exception as e:
                ctx.exc(e)
                if name == "valid":
                    ctx.violation("reader_rejects_well_formed_authentic_binary:bec2_valid", {"exc": fmt_exc(e), "check_cmac": cm}, rp)
                continue
            ctx.mon("reader_decision")
            got = [(dict(c.description), bytes(c.blob), c.actual_len, bool(c.encrypt_by_session_key)) for c in res.bf3file.components]
            same = len(got) == len(want) and all(g[0] == w[0] and g[2] == w[2] and g[3] == w[3] and g[1][: w[2]] == w[1][: w[2]] for g, w in zip(got, want)) and bytes(res.session_key) == key
            if name == "valid":
                ctx.bin("valid_accepted")
                if not same:
                    ctx.violation("accepted_content_differs_from_fields:bec2_valid", {"check_cmac": cm}, rp)
            elif not same or len(binary) != len(good):
                ctx.violation("reader_accepts_binary_breaking_rule:bec2_header:" + name, {"check_cmac": cm, "same_content": same}, rp)


def run_shard(spec, ctx):
    ns = load()
    rng = ctx.rng
    for i in range(spec["n"]):
        case = gen_valid(rng)
        key = G.gen_key(rng)
        run_file(ns, ctx, case, key, first=(i == 0))
        if i % 8 == 1:
            bec2_header_edits(ns, ctx, rng, case, key)
        if i % 8 == 3:
            # well-formed files at the limits of the fields: a description of exactly 210 bytes (entry size byte 255), and
            # many components
            big = G.Case([], [MComp([(7, rng.randbytes(208))], b"full entry", None, False), MComp([(1, b"x")], b"next", None, False)])
            many = G.Case([], [MComp([(2, bytes((j % 256,)))], bytes((1 + j % 250,)) * (1 + j % 4), None, False) for j in range(rng.choice((40, 257, 300)))])
            for nm, cs in (("valid_description_of_210_bytes", big), ("valid_many_components", many)):
                binary = E.Spec(cs.comps, key).assemble()
                for via in ("read_file", "from_binary"):
                    judge(ns, ctx, nm, None, binary, key, via, {"case": cs.to_json() if len(cs.comps) < 10 else None, "key": key.hex(), "edit": nm, "binary": binary.hex() if len(binary) < 3000 else None, "rkey": key.hex()})
        if i % 8 == 5 and case.comps:
            # history: the authentic file is read under its key K1; then a file for K2 arrives whose entry MACs are right
            # under K2 but whose payload MACs are still the K1 values -> must be rejected (payload_mac)
            k2 = bytes((b ^ 0x6B) for b in key)
            b1 = E.Spec(case.comps, key).assemble()
            judge(ns, ctx, "valid", None, b1, key, "read_file", {"case": case.to_json(), "key": key.hex(), "edit": "valid", "binary": None, "rkey": key.hex()})
            s2 = E.Spec(case.comps, k2)
            s1 = E.Spec(case.comps, key)
            if s2.payloads == s1.payloads and all(len(p_) for p_ in s1.payloads):
                for e_, p_ in zip(s2.entries, s1.payloads):
                    e_["pmac"] = L.mac(key, p_)
                b2 = s2.assemble()
                for via in ("read_file", "from_binary"):
                    judge(ns, ctx, "payload_mac_made_under_a_key_read_earlier", "payload_mac", b2, k2, via, {"case": case.to_json(), "key": key.hex(), "edit": "payload_mac_made_under_a_key_read_earlier", "binary": b2.hex() if len(b2) < 3000 else None, "rkey": k2.hex()})


def replay(rec, ctx):
    ns = load()
    if rec.get("binary"):
        binary = bytes.fromhex(rec["binary"])
        for via in ("read_file", "from_binary"):
            judge(ns, ctx, rec["edit"], "*" if rec["edit"] not in ("valid", "declared_equals_stored", "declared_one", "entries_swapped_reindexed", "valid_description_of_210_bytes", "valid_many_components") else None, binary, bytes.fromhex(rec["rkey"]), via, rec)
    else:
        run_file(ns, ctx, G.Case.from_json(rec["case"]), bytes.fromhex(rec["key"]))
