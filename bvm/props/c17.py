"""C17 - elliptic-curve arithmetic, ECDH and public-point validation are correct.

Oracles: complete affine group tables of small prime-order curves (bvm.refs.ec_small)
for every pair of group elements in several projective representations; OpenSSL
EC_POINT_mul / ECDH on the 17 shipped short-Weierstrass curves."""
import hashlib

from ..ctx import fmt_exc
from ..load import load, weierstrass_curves
from ..refs import ec_small as S
from ..refs import ossl

ID = "C17"
LEVEL = "exploration"
RULE = (
    "small-curve cases: every ordered pair of group elements (infinity, equal and inverse operands included) of completely enumerated prime-order curves over "
    "F_p, p <= 61, in ten combinations of projective representations (affine, scaled by z in {2,3,p-1}, same z, different z, negated-negative with unreduced "
    "negative y, result of a doubling); every scalar 0..2n+1 on every element in four representations (with/without order, scaled, generator=True precompute "
    "path); mul_add over scalar pairs {0,1,2,n-1,n,n+1,k,n-k}; affine Point arithmetic likewise. shipped curves: k*G, k*Q, mul_add, negation/scale "
    "combinations, ECDH vs OpenSSL for edge scalars 0,1,2,n-1,n,n+1,2^k,2^k-1,2n-1 and random; invalid points offered to from_string / from_der / "
    "from_public_point / ECDH. distinct = digest of (curve, operation, operands, representations); non-trivial = at least one operand not infinity"
)
ASSUMPTIONS = [
    "results are compared as group elements (coordinates mod p, infinity as infinity); (-P).y() being a negative integer is a representation, not a law",
    "curves of non-prime order and the two Edwards curves are excluded (quantifier)",
    "'rejected' = any exception; on the cofactor-4 curve SECP112r2 on-curve points of order 4 / 4n (outside the group the keys live in) are treated as invalid as well; points of order 2 / 2n are recorded only (y == 0 is the library's infinity, so it cannot tell them apart)",
]
TIMEOUT = {"quick": 1200, "thorough": 8 * 3600}
OPTIMIZED_SHARDS = ("ship00", "ship07", "ship12")  # these shards also run under python -O
NSH = 16


def select_small_curves(tier):
    allc = S.prime_order_curves(61 if tier != "quick" else 43)
    if tier != "quick":
        return allc
    picks = []

    def first(pred):
        for c in allc:
            if pred(c) and c not in picks:
                picks.append(c)
                return

    first(lambda c: c[3] == c[0])  # anomalous n = p
    first(lambda c: c[0] % 4 == 1)
    first(lambda c: c[1] == 0)
    first(lambda c: c[1] == c[0] - 3)
    first(lambda c: c[2] == 0 if False else c[0] == 5)
    first(lambda c: c[0] == 7)
    first(lambda c: c[0] == 43 and c[3] > 43)
    first(lambda c: c[0] == 41 and c[3] < 41)
    first(lambda c: c[0] == 37)
    first(lambda c: c[0] == 31 and c[1] == 1)
    first(lambda c: c[0] == 23)
    first(lambda c: c[0] == 13)
    first(lambda c: c[0] == 29 and c[3] == 37)
    first(lambda c: c[0] == 19)
    first(lambda c: c[0] == 11)
    first(lambda c: c[0] == 17)
    return picks


def sqrt_mod(a, p):
    """a square root of a modulo the odd prime p, or None (Tonelli-Shanks)"""
    a %= p
    if a == 0:
        return 0
    if pow(a, (p - 1) // 2, p) != 1:
        return None
    if p % 4 == 3:
        return pow(a, (p + 1) // 4, p)
    q, s_ = p - 1, 0
    while q % 2 == 0:
        q //= 2
        s_ += 1
    z = 2
    while pow(z, (p - 1) // 2, p) != p - 1:
        z += 1
    m, c, t, r = s_, pow(z, q, p), pow(a, q, p), pow(a, (q + 1) // 2, p)
    while t != 1:
        i, t2 = 0, t
        while t2 != 1:
            t2 = t2 * t2 % p
            i += 1
        b = pow(c, 1 << (m - i - 1), p)
        m, c = i, b * b % p
        t, r = t * c % p, r * b % p
    return r


def plan(tier, seed):
    jobs = []
    small = select_small_curves(tier)
    chunks = [small[i::NSH] for i in range(NSH)]
    for i, ch in enumerate(chunks):
        if ch:
            jobs.append({"name": "small%02d" % i, "spec": {"kind": "small", "curves": ch}})
    for i in range(17):
        jobs.append({"name": "ship%02d" % i, "spec": {"kind": "shipped", "curve": i}})
    tests = ["test_jacobi.py", "test_ellipticcurve.py", "test_ecdh.py"] if tier == "quick" else ["test_jacobi.py", "test_ellipticcurve.py", "test_ecdh.py", "test_pyecdsa.py", "test_keys.py", "test_ecdsa.py", "test_malformed_sigs.py"]
    for t in tests:
        jobs.append({"name": "suite_" + t[5:-3], "spec": {"kind": "suite", "test": t}})
    return jobs


def mandatory_bins(tier):
    b = ["small_curve", "pair_add", "pair_add_with_infinity", "pair_add_equal_operands", "pair_add_inverse_operands", "rep_unreduced_negative_y", "rep_scaled", "rep_same_z", "rep_different_z",
         "double", "negate", "scalar_mul_all_0_to_2n_plus_1", "scalar_mul_precompute_path", "scalar_mul_without_order", "mul_add", "affine_point_arithmetic", "neutral_element_and_reflected_operations", "mixed_jacobi_affine", "equality_across_representations",
         "anomalous_curve_n_eq_p", "long_lived_point_objects_reused_across_operations", "curve_a_zero", "curve_a_minus_3", "curve_p_1_mod_4",
         "shipped_curve", "kG_vs_openssl", "kQ_vs_openssl", "mul_add_vs_openssl", "mul_add_both_operands_with_tables_multipliers_above_the_order", "mul_add_multipliers_far_above_the_order", "negation_scale_combination", "scalar_n", "scalar_n_plus_1", "scalar_2^k", "scalar_2^k-1", "ecdh_vs_openssl", "ecdh_edge_scalar", "ecdh_keys_loaded_as_bytes", "ecdh_keys_loaded_as_der", "ecdh_keys_loaded_as_pem", "ecdh_keys_loaded_as_object", "ecdh_generated_private_key", "ecdh_object_reused_with_keys_replaced_one_at_a_time", "ecdh_shared_point_with_x_zero",
         "invalid_off_curve", "invalid_coordinate_ge_p", "invalid_congruent_coordinate_ge_p", "invalid_zero_zero", "invalid_other_curve_point", "invalid_point_object_of_sibling_curve", "invalid_point_outside_prime_order_subgroup", "invalid_infinity", "repository_suite_under_group_law_monitor"]
    return b


# ---------------------------------------------------------------------------------------------
def as_group(res, INF, p):
    """library result -> affine tuple mod p / None"""
    if res is INF or res == INF:
        return None
    return (int(res.x()) % p, int(res.y()) % p)


def reps_of(E, PJ, curve, p, n, half_of):
    """name -> PointJacobi object representing group element E (not infinity)"""
    x, y = E
    out = {"aff": PJ(curve, x, y, 1, n)}
    for z in (2, 3, p - 1):
        out["z%d" % (z if z != p - 1 else -1)] = PJ(curve, x * z * z % p, y * z * z * z % p, z, n)
    out["negneg"] = -PJ(curve, x, (-y) % p, 1, n)
    z = 2
    out["negneg_z"] = -PJ(curve, x * z * z % p, (-y) * z * z * z % p, z, n)
    h = half_of(E)
    if h is not None:
        d = PJ(curve, h[0], h[1], 1, n).double()
        out["dbl"] = d
    return out


COMBOS = [("aff", "aff"), ("aff", "z2"), ("z3", "aff"), ("z2", "z2"), ("z2", "z3"), ("negneg", "aff"), ("aff", "negneg"), ("negneg", "negneg"), ("dbl", "z-1"), ("negneg_z", "aff"), ("z-1", "negneg_z"), ("dbl", "dbl")]


def run_small(ns, ctx, spec):
    EC = ns.ellipticcurve
    PJ, PT, INF = EC.PointJacobi, EC.Point, EC.INFINITY
    for (p, a, b, n) in spec["curves"]:
        curve = EC.CurveFp(p, a, b, 1)
        els, idx, tab = S.multiplication_table(p, a, b)
        assert len(els) == n
        ctx.bin("small_curve")
        if n == p:
            ctx.bin("anomalous_curve_n_eq_p")
        if a == 0:
            ctx.bin("curve_a_zero")
        if a == p - 3:
            ctx.bin("curve_a_minus_3")
        if p % 4 == 1:
            ctx.bin("curve_p_1_mod_4")
        inv2 = pow(2, -1, n)
        half_of = lambda E: S.mul(inv2, E, p, a)
        cid = (p, a, b)
        rp = {"kind": "small", "curve": [p, a, b, n]}

        pooled = (p + a + b) % 2 == 1
        pool = {}
        if pooled:
            ctx.bin("long_lived_point_objects_reused_across_operations")

        def mk(E, rep):
            if E is None:
                return INF if rep in ("aff", "negneg", "dbl") else PJ(curve, 0, 0, 1, n)
            if pooled:
                # the same objects take part in thousands of operations (in-place rescaling, cached tables ... must not matter)
                k = (E, rep)
                if k not in pool:
                    pool[k] = reps_of(E, PJ, curve, p, n, half_of)[rep]
                return pool[k]
            return reps_of(E, PJ, curve, p, n, half_of)[rep]

        # ---- every ordered pair, several representation combinations -----------------------------
        for i1, E1 in enumerate(els):
            for i2, E2 in enumerate(els):
                want = els[tab[i1][i2]]
                for r1, r2 in COMBOS:
                    A, B = mk(E1, r1), mk(E2, r2)
                    ctx.ev()
                    ctx.bin("pair_add")
                    if E1 is None or E2 is None:
                        ctx.bin("pair_add_with_infinity")
                    elif i1 == i2:
                        ctx.bin("pair_add_equal_operands")
                    elif want is None:
                        ctx.bin("pair_add_inverse_operands")
                    if "negneg" in (r1, r2):
                        ctx.bin("rep_unreduced_negative_y")
                    if r1[0] == "z" or r2[0] == "z":
                        ctx.bin("rep_scaled")
                    if r1 == r2 and r1[0] == "z":
                        ctx.bin("rep_same_z")
                    if r1 != r2 and r1[0] == "z" and r2[0] == "z":
                        ctx.bin("rep_different_z")
                    try:
                        got = as_group(A + B, INF, p)
                        ctx.mon("PointJacobi.__add__")
                    except Exception as e:
                        ctx.violation("jacobi_add_raises", {"curve": cid, "P": E1, "Q": E2, "reps": (r1, r2), "exc": fmt_exc(e)}, dict(rp, op="add", P=E1, Q=E2, reps=[r1, r2]))
                        continue
                    if got != want:
                        kind = "equal_operands" if (E1 is not None and i1 == i2) else "inverse_operands" if (want is None and E1 is not None) else "with_infinity" if (E1 is None or E2 is None) else "distinct_operands"
                        ctx.violation("jacobi_add_breaks_group_law:%s:%s+%s" % (kind, r1.rstrip("0123456789-"), r2.rstrip("0123456789-")), {"curve": cid, "P": E1, "Q": E2, "reps": (r1, r2), "got": got, "expected": want}, dict(rp, op="add", P=E1, Q=E2, reps=[r1, r2]))
                    # equality across representations
                    if r1 != r2 or True:
                        eq = (A == B) if not (A is INF) else (B == A)
                        ctx.bin("equality_across_representations")
                        if bool(eq) != (i1 == i2):
                            ctx.violation("equality_depends_on_representation", {"curve": cid, "P": E1, "Q": E2, "reps": (r1, r2), "got": bool(eq)}, dict(rp, op="eq", P=E1, Q=E2, reps=[r1, r2]))
                ctx.distinct(cid, "add", i1, i2)
        # ---- double / negate per representation -------------------------------------------------------
        for i1, E1 in enumerate(els[1:], 1):
            for rname, obj in reps_of(E1, PJ, curve, p, n, half_of).items():
                ctx.ev()
                ctx.bin("double")
                got = as_group(obj.double(), INF, p)
                ctx.mon("PointJacobi.double")
                if got != els[tab[i1][i1]]:
                    ctx.violation("jacobi_double_breaks_group_law:" + rname.rstrip("0123456789-"), {"curve": cid, "P": E1, "rep": rname, "got": got, "expected": els[tab[i1][i1]]}, dict(rp, op="double", P=E1, reps=[rname]))
                ctx.bin("negate")
                got = as_group(-obj, INF, p)
                if got != S.neg(E1, p):
                    ctx.violation("jacobi_negate_breaks_group_law", {"curve": cid, "P": E1, "rep": rname, "got": got}, dict(rp, op="neg", P=E1, reps=[rname]))
                # in-place scale must not change the group element
                obj2 = reps_of(E1, PJ, curve, p, n, half_of)[rname]
                got = as_group(obj2.scale(), INF, p)
                if got != E1 or as_group(obj2.to_affine(), INF, p) != E1:
                    ctx.violation("scale_or_to_affine_changes_the_point", {"curve": cid, "P": E1, "rep": rname, "got": got}, dict(rp, op="scale", P=E1, reps=[rname]))
            ctx.distinct(cid, "dbl", i1)
        # ---- scalar multiplication: every scalar 0..2n+1 -----------------------------------------------------
        for i1, E1 in enumerate(els[1:], 1):
            x, y = E1
            want = None
            wants = []
            for k in range(0, 4 * n + 4):
                wants.append(want)
                want = els[tab[idx[want]][i1]]
            variants = {
                "order": lambda: PJ(curve, x, y, 1, n),
                "no_order": lambda: PJ(curve, x, y, 1),
                "scaled": lambda: PJ(curve, x * 9 % p, y * 27 % p, 3, n),
                "generator": lambda: PJ(curve, x, y, 1, n, generator=True),
                "negneg": lambda: -PJ(curve, x, (-y) % p, 1, n),
            }
            for vname, mkv in variants.items():
                obj = mkv()
                for k in range(0, 4 * n + 4 if vname == "no_order" else 2 * n + 2):
                    if vname == "generator" and k % 7 == 0:
                        obj = mkv()  # fresh table build now and then
                    ctx.ev()
                    try:
                        got = as_group(obj * k if k % 2 else k * obj, INF, p)
                        ctx.mon("PointJacobi.__mul__")
                    except Exception as e:
                        ctx.violation("jacobi_mul_raises:" + vname, {"curve": cid, "P": E1, "k": k, "exc": fmt_exc(e)}, dict(rp, op="mul", P=E1, k=k, variant=vname))
                        continue
                    if got != wants[k]:
                        ctx.violation("jacobi_scalar_mul_wrong:" + vname, {"curve": cid, "P": E1, "k": k, "n": n, "got": got, "expected": wants[k]}, dict(rp, op="mul", P=E1, k=k, variant=vname))
                ctx.bin({"generator": "scalar_mul_precompute_path", "no_order": "scalar_mul_without_order"}.get(vname, "scalar_mul_all_0_to_2n_plus_1"))
            ctx.distinct(cid, "mul", i1)
        ctx.bin("scalar_mul_all_0_to_2n_plus_1")
        # ---- mul_add ------------------------------------------------------------------------------------------
        # ... and multipliers far above the order (6n+1, 9n+2, n*n+3, 2^(bits+4)+1): a multiple of the order contributes nothing
        ks = sorted({0, 1, 2, n - 1, n, n + 1, 3 % n, n - 3, 5 % n, n // 2, 6 * n + 1, 9 * n + 2, n * n + 3, (1 << (n.bit_length() + 4)) + 1})
        ctx.bin("mul_add_multipliers_far_above_the_order")
        pts = els[1:]
        step = max(1, len(pts) // 6)
        for i1 in range(1, n, step):
            for i2 in range(1, n, max(1, step - 1)):
                E1, E2 = els[i1], els[i2]
                for k1 in ks:
                    for k2 in ks:
                        want = S.add(S.mul(k1, E1, p, a), S.mul(k2, E2, p, a), p, a)
                        for gen in (False, True):
                            A = PJ(curve, E1[0], E1[1], 1, n, generator=gen)
                            Bp = PJ(curve, E2[0] * 4 % p, E2[1] * 8 % p, 2, n, generator=gen and k1 % 2 == 0)
                            ctx.ev()
                            ctx.bin("mul_add")
                            try:
                                got = as_group(A.mul_add(k1, Bp, k2), INF, p)
                                ctx.mon("PointJacobi.mul_add")
                            except Exception as e:
                                ctx.violation("mul_add_raises", {"curve": cid, "exc": fmt_exc(e), "k1": k1, "k2": k2}, dict(rp, op="mul_add", P=E1, Q=E2, k1=k1, k2=k2))
                                continue
                            if got != want:
                                ctx.violation("mul_add_wrong", {"curve": cid, "P": E1, "Q": E2, "k1": k1, "k2": k2, "got": got, "expected": want, "precompute": gen}, dict(rp, op="mul_add", P=E1, Q=E2, k1=k1, k2=k2))
                ctx.distinct(cid, "mul_add", i1, i2)
        # ---- affine Point class -----------------------------------------------------------------------------------
        for i1, E1 in enumerate(els[1:], 1):
            P1 = PT(curve, E1[0], E1[1], n)
            for i2, E2 in enumerate(els[1:], 1):
                P2 = PT(curve, E2[0], E2[1], n)
                ctx.ev()
                ctx.bin("affine_point_arithmetic")
                got = as_group(P1 + P2, INF, p)
                if got != els[tab[i1][i2]]:
                    ctx.violation("affine_add_breaks_group_law", {"curve": cid, "P": E1, "Q": E2, "got": got, "expected": els[tab[i1][i2]]}, dict(rp, op="aff_add", P=E1, Q=E2))
                if i2 % 5 == 0:
                    ctx.bin("mixed_jacobi_affine")
                    got = as_group(PJ(curve, E1[0] * 4 % p, E1[1] * 8 % p, 2, n) + P2, INF, p)
                    if got != els[tab[i1][i2]]:
                        ctx.violation("mixed_jacobi_affine_add_breaks_group_law", {"curve": cid, "P": E1, "Q": E2, "got": got}, dict(rp, op="mixed_add", P=E1, Q=E2))
            want = None
            for k in range(0, 4 * n + 4):
                got = as_group(P1 * k, INF, p)
                ctx.ev()
                if got != want:
                    ctx.violation("affine_scalar_mul_wrong", {"curve": cid, "P": E1, "k": k, "got": got, "expected": want}, dict(rp, op="aff_mul", P=E1, k=k))
                want = els[tab[idx[want]][i1]]
            if as_group(P1.double(), INF, p) != els[tab[i1][i1]] or as_group(-P1, INF, p) != S.neg(E1, p):
                ctx.violation("affine_double_or_negate_wrong", {"curve": cid, "P": E1}, dict(rp, op="aff_dbl", P=E1))
            # the neutral element on either side, reflected multiplication, bool / index-like scalars
            J1 = PJ(curve, E1[0], E1[1], 1, n)
            ctx.bin("neutral_element_and_reflected_operations")
            checks = (("INF+P", lambda: INF + P1, E1), ("P+INF", lambda: P1 + INF, E1), ("INF+J", lambda: INF + J1, E1), ("J+INF", lambda: J1 + INF, E1), ("INF*k", lambda: INF * (i1 + 2), None), ("k*INF", lambda: (i1 + 2) * INF, None),
                      ("k*P", lambda: 3 * P1, els[tab[tab[i1][i1]][i1]]), ("k*J", lambda: 3 * J1, els[tab[tab[i1][i1]][i1]]), ("True*P", lambda: True * P1, E1), ("J*True", lambda: J1 * True, E1), ("P*0", lambda: P1 * 0, None), ("J*0", lambda: J1 * 0, None),
                      ("INF.double", lambda: INF.double(), None), ("INF+INF", lambda: INF + INF, None), ("P+(-P)", lambda: P1 + (-P1), None), ("J+(-J)", lambda: J1 + (-J1), None), ("J*(n)", lambda: J1 * n, None), ("P*(-1)", lambda: P1 * (n - 1), S.neg(E1, p)))
            # the neutral element in JACOBI form ((0, 0, z): the library's encoding of infinity is y == 0), negated, multiplied, and as
            # either operand of mul_add
            three = els[tab[tab[i1][i1]][i1]]
            two = els[tab[i1][i1]]
            for z_ in (1, 5 % p or 2):
                Oj = lambda z_=z_: PJ(curve, 0, 0, z_, n)
                checks += (("-O_jacobi==INF", lambda Oj=Oj: -Oj(), None), ("J+(-O_jacobi)", lambda Oj=Oj: J1 + (-Oj()), E1), ("(-O_jacobi)+J", lambda Oj=Oj: (-Oj()) + J1, E1), ("3*(-O_jacobi)", lambda Oj=Oj: (-Oj()) * 3, None),
                           ("O_jacobi.mul_add(2,J,3)", lambda Oj=Oj: Oj().mul_add(2, J1, 3), three), ("J.mul_add(2,O_jacobi,3)", lambda Oj=Oj: J1.mul_add(2, Oj(), 3), two),
                           ("O_jacobi.mul_add(3,J,3)", lambda Oj=Oj: Oj().mul_add(3, J1, 3), three), ("O_jacobi.double()", lambda Oj=Oj: Oj().double(), None), ("O_jacobi.scale()", lambda Oj=Oj: Oj().scale(), None))
            for cname, fn, want_ in checks:
                ctx.ev()
                try:
                    got_ = as_group(fn(), INF, p)
                except Exception as e:
                    ctx.violation("neutral_or_reflected_operation_raises:" + cname, {"curve": cid, "P": E1, "exc": fmt_exc(e)}, dict(rp, op=cname, P=E1))
                    continue
                if got_ != want_:
                    ctx.violation("neutral_or_reflected_operation_wrong:" + cname, {"curve": cid, "P": E1, "got": got_, "expected": want_}, dict(rp, op=cname, P=E1))
            ctx.distinct(cid, "aff", i1)
    ctx.sample({"kind": "small", "curve": list(spec["curves"][0]), "note": "all %d x %d ordered pairs x %d representation combinations" % (spec["curves"][0][3], spec["curves"][0][3], len(COMBOS))})


# ---------------------------------------------------------------------------------------------
def edge_scalars(n, rng, quick):
    bits = n.bit_length()
    ks = [(0, None), (1, None), (2, None), (n - 1, None), (n, "scalar_n"), (n + 1, "scalar_n_plus_1"), (2 * n - 1, None), (n - 2, None), (3, None)]
    step = max(1, bits // 24) if quick else 1
    for k in range(1, bits + 2, step):
        ks.append((1 << k, "scalar_2^k"))
        ks.append(((1 << k) - 1, "scalar_2^k-1"))
    for _ in range(6 if quick else 60):
        ks.append((rng.randrange(2 * n), None))
    return ks


def run_shipped(ns, ctx, spec):
    EC = ns.ellipticcurve
    PJ, PT, INF = EC.PointJacobi, EC.Point, EC.INFINITY
    K = ns.keys
    rng = ctx.rng
    quick = ctx.tier == "quick"
    cv = weierstrass_curves(ns)[spec["curve"]]
    name = cv.openssl_name
    n = int(cv.order)
    p = int(cv.curve.p())
    G = cv.generator
    ctx.bin("shipped_curve")
    rp = {"kind": "shipped", "curve": cv.name}
    big = p.bit_length() > 300

    def chk(what, got, want, detail):
        ctx.ev()
        if got != want:
            ctx.violation(what + ":" + ("infinity_expected" if want is None else "infinity_returned" if got is None else "wrong_point"), dict(detail, curve=cv.name, got=got, expected=want), dict(rp, **{k: (hex(v) if isinstance(v, int) else v) for k, v in detail.items()}))

    d = rng.randrange(1, n)
    qx, qy = ossl.point_mul(name, d)
    for k, b in edge_scalars(n, rng, quick or big):
        if b:
            ctx.bin(b)
        ctx.distinct(cv.name, "kG", k)
        chk("kG_differs_from_openssl", as_group(G * k, INF, p), ossl.point_mul(name, k) if k % n else None, {"k": k})
        ctx.bin("kG_vs_openssl")
        ctx.mon("G*k")
        Q = PJ(cv.curve, qx, qy, 1, n)
        chk("kQ_differs_from_openssl", as_group(Q * k, INF, p), ossl.point_mul(name, None, (qx, qy), k) if k % n else None, {"k": k, "d": d})
        ctx.bin("kQ_vs_openssl")
        ctx.mon("Q*k")
    # mul_add vs OpenSSL
    for _ in range(4 if quick else 40):
        k1, k2 = rng.choice((0, 1, n - 1, rng.randrange(n))), rng.choice((1, 2, n - 1, rng.randrange(n)))
        Q = PJ(cv.curve, qx, qy, 1, n)
        want = ossl.point_mul(name, k1, (qx, qy), k2)
        chk("mul_add_differs_from_openssl", as_group(G.mul_add(k1, Q, k2), INF, p), want, {"k1": k1, "k2": k2, "d": d})
        Qa = PT(cv.curve, qx, qy, n)
        chk("mul_add_differs_from_openssl", as_group(PJ.from_affine(Qa).mul_add(k2, G, k1), INF, p), want, {"k1": k1, "k2": k2, "d": d, "swapped": True})
        ctx.bin("mul_add_vs_openssl")
        ctx.distinct(cv.name, "mul_add", k1, k2)
        # both operands of the generator kind (each with its own multiplication table), multipliers far above the order
        b1, b2 = rng.choice(((1 << (n.bit_length() + 4)) + rng.randrange(n), n * n + rng.randrange(n), 6 * n + rng.randrange(n))), rng.choice((9 * n + rng.randrange(n), (1 << (n.bit_length() + 5)) + 3, rng.randrange(n)))
        if b1 % n and b2 % n:
            Qg = PJ(cv.curve, qx, qy, 1, n, generator=True)
            Gg = PJ(cv.curve, int(cv.generator.x()), int(cv.generator.y()), 1, n, generator=True)
            chk("mul_add_differs_from_openssl:both_operands_with_tables_multipliers_above_the_order", as_group(Gg.mul_add(b1, Qg, b2), INF, p), ossl.point_mul(name, b1 % n, (qx, qy), b2 % n), {"k1": hex(b1), "k2": hex(b2), "d": d})
            ctx.bin("mul_add_both_operands_with_tables_multipliers_above_the_order")
    # negation / scale combinations: representations the library itself produces
    two_g = ossl.point_mul(name, 2)
    minus_two_g = (two_g[0], (-two_g[1]) % p)
    cases = {
        "(-G)+((n-1)G).scale()": lambda: (-G) + (G * (n - 1)).scale(),
        "((n-1)G).scale()+(-G)": lambda: (G * (n - 1)).scale() + (-G),
        "(-G)+(-G)": lambda: (-G) + (-G),
        "(-G).double()": lambda: (-G).double(),
        "(-G)+((n-1)G)": lambda: (-G) + G * (n - 1),
        "-(G+G)": lambda: -(G + G),
        "(-(-G))+G": lambda: (-(-G)) + G,
        "(-G)*2": lambda: (-G) * 2,
    }
    for cname, fn in cases.items():
        want = minus_two_g if cname not in ("(-(-G))+G",) else two_g
        ctx.bin("negation_scale_combination")
        ctx.distinct(cv.name, cname)
        try:
            got = as_group(fn(), INF, p)
        except Exception as e:
            ctx.violation("negation_scale_combination_raises", {"curve": cv.name, "expr": cname, "exc": fmt_exc(e)}, dict(rp, expr=cname))
            continue
        chk("negation_scale_combination_wrong:" + cname, got, want, {"expr": cname})
    Q = PJ(cv.curve, qx, qy, 1, n)
    chk("negation_scale_combination_wrong:(-Q)+(-Q).scale()", as_group((-Q) + (Q * (n - 1)).scale(), INF, p), ossl.point_mul(name, None, (qx, qy), n - 2), {"expr": "(-Q)+((n-1)Q).scale()", "d": d})
    # ---- ECDH -------------------------------------------------------------------------------------------------
    for i in range(6 if quick or big else 60):
        d1 = (1, 2, n - 1)[i] if i < 3 else rng.randrange(1, n)
        d2 = (n - 1, 1, 2)[i] if i < 3 else rng.randrange(1, n)
        if i < 3:
            ctx.bin("ecdh_edge_scalar")
        sk1 = K.SigningKey.from_secret_exponent(d1, curve=cv, hashfunc=hashlib.sha256)
        sk2 = K.SigningKey.from_secret_exponent(d2, curve=cv, hashfunc=hashlib.sha256)
        e1 = ns.ecdh.ECDH(curve=cv, private_key=sk1, public_key=sk2.verifying_key)
        e2 = ns.ecdh.ECDH(curve=cv)
        route = ("bytes", "der", "pem", "object")[(i + rng.randrange(4)) % 4] if i >= 3 else ("bytes", "der", "pem")[i]
        ctx.bin("ecdh_keys_loaded_as_" + route)
        if route == "bytes":
            e2.load_private_key_bytes(sk2.to_string())
            e2.load_received_public_key_bytes(sk1.verifying_key.to_string("uncompressed" if i % 2 else "compressed"))
        elif route == "der":
            e2.load_private_key_der(sk2.to_der(format="pkcs8" if i % 2 else "ssleay"))
            e2.load_received_public_key_der(sk1.verifying_key.to_der("compressed" if i % 2 else "uncompressed"))
        elif route == "pem":
            e2.load_private_key_pem(sk2.to_pem(format="ssleay" if i % 2 else "pkcs8"))
            e2.load_received_public_key_pem(sk1.verifying_key.to_pem())
        else:
            e2 = ns.ecdh.ECDH()  # the curve is taken from the key
            e2.load_private_key(sk2)
            e2.load_received_public_key(sk1.verifying_key)
        if i == 3:
            # a key pair drawn by the ECDH object itself: its published key must give the peer the same secret
            e3 = ns.ecdh.ECDH(curve=cv)
            pub3 = e3.generate_private_key()
            d3 = int(e3.private_key.privkey.secret_multiplier)
            ctx.bin("ecdh_generated_private_key")
            try:
                e3.load_received_public_key(sk1.verifying_key)
                e4 = ns.ecdh.ECDH(curve=cv, private_key=sk1, public_key=e3.get_public_key())
                s3, s4 = e3.generate_sharedsecret_bytes(), e4.generate_sharedsecret_bytes()
                ctx.mon("ECDH.generate_sharedsecret_bytes", 2)
                if not (s3 == s4 == ossl.ecdh(name, d3, ossl.point_mul(name, d1))) or pub3.to_string() != e3.get_public_key().to_string():
                    ctx.violation("ecdh_with_generated_key_differs", {"curve": cv.name}, dict(rp, d1=hex(d1), d3=hex(d3)))
            except Exception as e:
                ctx.violation("ecdh_raises", {"curve": cv.name, "exc": fmt_exc(e), "route": "generated"}, dict(rp, d1=hex(d1)))
        ctx.ev()
        ctx.bin("ecdh_vs_openssl")
        ctx.distinct(cv.name, "ecdh", d1, d2)
        rp2 = dict(rp, d1=hex(d1), d2=hex(d2))
        try:
            s1, s2 = e1.generate_sharedsecret_bytes(), e2.generate_sharedsecret_bytes()
            ctx.mon("ECDH.generate_sharedsecret_bytes", 2)
        except Exception as e:
            ctx.violation("ecdh_raises", {"curve": cv.name, "exc": fmt_exc(e)}, rp2)
            continue
        want = ossl.ecdh(name, d1, ossl.point_mul(name, d2))
        if s1 != s2:
            ctx.violation("ecdh_secrets_of_the_two_parties_differ", {"curve": cv.name}, rp2)
        elif s1 != want:
            ctx.violation("ecdh_secret_differs_from_openssl", {"curve": cv.name, "got": s1, "expected": want}, rp2)
    # ---- ECDH: one long-lived object whose keys are replaced one at a time (a server object re-keyed; a peer changing) -----
    try:
        da, db_, dc = (rng.randrange(1, n) for _ in range(3))
        ska, skb, skc = (K.SigningKey.from_secret_exponent(x_, curve=cv, hashfunc=hashlib.sha256) for x_ in (da, db_, dc))
        e = ns.ecdh.ECDH(curve=cv)
        e.load_private_key(ska)
        e.load_received_public_key(skb.verifying_key)
        hist = [("A", "B", e.generate_sharedsecret_bytes(), ossl.ecdh(name, da, ossl.point_mul(name, db_)))]
        e.load_private_key_bytes(skc.to_string())  # own key replaced, peer kept
        hist.append(("C", "B", e.generate_sharedsecret_bytes(), ossl.ecdh(name, dc, ossl.point_mul(name, db_))))
        e.load_received_public_key_bytes(ska.verifying_key.to_string())  # peer replaced, own key kept
        hist.append(("C", "A", e.generate_sharedsecret_bytes(), ossl.ecdh(name, dc, ossl.point_mul(name, da))))
        e.load_private_key_der(skb.to_der())
        hist.append(("B", "A", e.generate_sharedsecret_bytes(), ossl.ecdh(name, db_, ossl.point_mul(name, da))))
        hist.append(("B", "A", e.generate_sharedsecret_bytes(), ossl.ecdh(name, db_, ossl.point_mul(name, da))))
        ctx.ev(len(hist))
        ctx.bin("ecdh_object_reused_with_keys_replaced_one_at_a_time")
        ctx.mon("ECDH.generate_sharedsecret_bytes", len(hist))
        for step, (own, peer, got, want) in enumerate(hist):
            if got != want:
                ctx.violation("ecdh_secret_of_reused_object_differs_from_openssl", {"curve": cv.name, "step": step, "own": own, "peer": peer}, dict(rp, da=hex(da), db=hex(db_), dc=hex(dc)))
                break
    except Exception as e_:
        ctx.violation("ecdh_raises", {"curve": cv.name, "exc": fmt_exc(e_), "route": "reused_object"}, rp)
    # ---- ECDH: shared point with affine x == 0 (a valid group element on curves where b is a square): the secret is all-zero
    # bytes, as OpenSSL returns it - not 'infinity'
    L_ = (p.bit_length() + 7) // 8
    y0 = sqrt_mod(int(cv.curve.b()) % p, p)
    if y0 is not None:
        try:
            P0 = (0, y0)
            ossl.point_mul(name, None, P0, 1)  # on the curve (raises otherwise)
            d0 = rng.randrange(2, n)
            Q0 = ossl.point_mul(name, None, P0, pow(d0, -1, n))
            e0 = ns.ecdh.ECDH(curve=cv, private_key=K.SigningKey.from_secret_exponent(d0, curve=cv, hashfunc=hashlib.sha256))
            e0.load_received_public_key_bytes(Q0[0].to_bytes(L_, "big") + Q0[1].to_bytes(L_, "big"))
            ctx.ev()
            ctx.bin("ecdh_shared_point_with_x_zero")
            want0 = ossl.ecdh(name, d0, Q0)
            got0 = e0.generate_sharedsecret_bytes()
            ctx.mon("ECDH.generate_sharedsecret_bytes")
            if got0 != want0:
                ctx.violation("ecdh_secret_differs_from_openssl:shared_x_is_zero", {"curve": cv.name, "got": got0, "expected": want0}, dict(rp, d0=hex(d0)))
        except ossl.OsslError:
            pass
        except Exception as e_:
            ctx.violation("ecdh_raises", {"curve": cv.name, "exc": fmt_exc(e_), "route": "shared_x_is_zero"}, dict(rp, d0=hex(d0)))
        # ... and the point (0, sqrt(b)) itself as a PEER key: a valid public key, whatever form it arrives in
        try:
            ossl.point_mul(name, None, (0, y0), 1)
            for y_ in (y0, p - y0):
                raw0 = bytes(L_) + y_.to_bytes(L_, "big")
                d1_ = rng.randrange(2, n)
                want1 = ossl.ecdh(name, d1_, (0, y_))
                for route in ("bytes_raw", "bytes_uncompressed", "der", "public_point"):
                    ctx.ev()
                    ctx.bin("peer_key_with_x_zero")
                    try:
                        e1_ = ns.ecdh.ECDH(curve=cv, private_key=K.SigningKey.from_secret_exponent(d1_, curve=cv, hashfunc=hashlib.sha256))
                        if route == "bytes_raw":
                            e1_.load_received_public_key_bytes(raw0)
                        elif route == "bytes_uncompressed":
                            e1_.load_received_public_key_bytes(b"\x04" + raw0)
                        elif route == "der":
                            e1_.load_received_public_key_der(ossl.pub_to_spki(name, (0, y_)))
                        else:
                            e1_.load_received_public_key(K.VerifyingKey.from_public_point(ns.ellipticcurve.Point(cv.curve, 0, y_, n), curve=cv))
                        got1 = e1_.generate_sharedsecret_bytes()
                        ctx.mon("ECDH.generate_sharedsecret_bytes")
                        if got1 != want1:
                            ctx.violation("ecdh_secret_differs_from_openssl:peer_key_with_x_zero", {"curve": cv.name, "route": route}, dict(rp, d0=hex(d1_)))
                    except Exception as e_:
                        ctx.violation("valid_public_point_rejected:x_is_zero:" + route, {"curve": cv.name, "exc": fmt_exc(e_)}, dict(rp, d0=hex(d1_)))
        except ossl.OsslError:
            pass
    # ---- invalid public points -------------------------------------------------------------------------------------
    L = (p.bit_length() + 7) // 8
    others = [c for c in weierstrass_curves(ns) if c.name != cv.name and (int(c.curve.p()).bit_length() + 7) // 8 == L]

    def offer(cls, x, y):
        raw = x.to_bytes(L, "big") + y.to_bytes(L, "big") if x < 1 << (8 * L) and y < 1 << (8 * L) else None
        ctx.bin("invalid_" + cls)
        ways = []
        if raw is not None:
            ways.append(("from_string_raw", lambda: K.VerifyingKey.from_string(raw, curve=cv)))
            ways.append(("from_string_uncompressed", lambda: K.VerifyingKey.from_string(b"\x04" + raw, curve=cv)))
            ways.append(("ecdh_load_bytes", lambda: ns.ecdh.ECDH(curve=cv).load_received_public_key_bytes(raw)))
            good = K.SigningKey.from_secret_exponent(5, curve=cv).verifying_key.to_der()
            if good.endswith(K.SigningKey.from_secret_exponent(5, curve=cv).verifying_key.to_string()):
                ways.append(("from_der", lambda: K.VerifyingKey.from_der(good[: -2 * L] + raw)))
                ways.append(("ecdh_load_der", lambda: ns.ecdh.ECDH(curve=cv).load_received_public_key_der(good[: -2 * L] + raw)))
                ways.append(("ecdh_load_pem", lambda: ns.ecdh.ECDH(curve=cv).load_received_public_key_pem(ns.der.topem(good[: -2 * L] + raw, "PUBLIC KEY"))))
        ways.append(("from_public_point_jacobi", lambda: K.VerifyingKey.from_public_point(PJ(cv.curve, x, y, 1, n), curve=cv)))
        for wname, fn in ways:
            ctx.ev()
            ctx.distinct(cv.name, cls, wname, x, y)
            try:
                fn()
                ctx.mon("invalid_point_offered")
                ctx.violation("invalid_public_point_accepted:%s:%s" % (cls, wname), {"curve": cv.name, "x": x, "y": y}, dict(rp, x=hex(x), y=hex(y), cls=cls))
            except Exception as e:
                ctx.exc(e)
                ctx.mon("invalid_point_offered")

    for _ in range(3 if quick else 30):
        x, y = rng.randrange(p), rng.randrange(p)
        if (y * y - (x * x * x + int(cv.curve.a()) * x + int(cv.curve.b()))) % p:
            offer("off_curve", x, y)
        offer("off_curve", qx, (qy + 1) % p)
    # COMPRESSED encodings (02/03 | x) whose x has no point on the curve (x^3+ax+b is not a square): nothing can be decompressed
    a_c, b_c = int(cv.curve.a()), int(cv.curve.b())
    found = 0
    for _ in range(200):
        x = rng.randrange(p)
        if sqrt_mod((x * x * x + a_c * x + b_c) % p, p) is not None:
            continue
        found += 1
        ctx.bin("invalid_compressed_x_without_point")
        good_c = K.SigningKey.from_secret_exponent(5, curve=cv).verifying_key.to_der("compressed")
        for lead in (b"\x02", b"\x03"):
            comp = lead + x.to_bytes(L, "big")
            ways = [("from_string_compressed", lambda comp=comp: K.VerifyingKey.from_string(comp, curve=cv)),
                    ("ecdh_load_bytes_compressed", lambda comp=comp: ns.ecdh.ECDH(curve=cv).load_received_public_key_bytes(comp)),
                    ("point_from_bytes_compressed", lambda comp=comp: PJ.from_bytes(cv.curve, comp))]
            if good_c[-L:] == K.SigningKey.from_secret_exponent(5, curve=cv).verifying_key.to_string("compressed")[1:]:
                ways.append(("from_der_compressed", lambda comp=comp: K.VerifyingKey.from_der(good_c[: -(L + 1)] + comp)))
            for wname, fn in ways:
                ctx.ev()
                ctx.distinct(cv.name, "compressed_x_without_point", wname, x, lead)
                try:
                    fn()
                    ctx.violation("invalid_public_point_accepted:compressed_x_without_point:" + wname, {"curve": cv.name, "x": x}, dict(rp, x=hex(x), cls="compressed_x_without_point"))
                except Exception as e:
                    ctx.exc(e)
                ctx.mon("invalid_point_offered")
        if found >= (2 if quick else 12):
            break
    if p + 5 < 1 << (8 * L):
        offer("coordinate_ge_p", qx + p if qx + p < 1 << (8 * L) else p + 1, qy)
        offer("coordinate_ge_p", qx, p + rng.randrange(0, (1 << (8 * L)) - p))
    else:
        ctx.bin("invalid_coordinate_ge_p")  # p fills the byte length: no encodable coordinate >= p
        offer("coordinate_ge_p", p, qy) if p < 1 << (8 * L) else None
    # a coordinate that is congruent to a valid one but >= p (only encodable when p does not fill the byte length)
    if (1 << (8 * L)) - p > p >> 6:
        for _try in range(200):
            dd = rng.randrange(1, n)
            cx, cy = ossl.point_mul(name, dd)
            if cy + p < 1 << (8 * L):
                offer("coordinate_ge_p", cx, cy + p)
                ctx.bin("invalid_congruent_coordinate_ge_p")
                break
            if cx + p < 1 << (8 * L):
                offer("coordinate_ge_p", cx + p, cy)
                ctx.bin("invalid_congruent_coordinate_ge_p")
                break
    offer("zero_zero", 0, 0)
    if others:
        oc = others[0]
        ox, oy = ossl.point_mul(oc.openssl_name, 7)
        if (oy * oy - (ox * ox * ox + int(cv.curve.a()) * ox + int(cv.curve.b()))) % p:
            offer("other_curve_point", ox % p, oy % p) if (ox < p and oy < p) else offer("other_curve_point", ox % p, (oy % p))
        ctx.bin("invalid_other_curve_point")
        # key object of another curve handed to ECDH
        ctx.ev()
        try:
            e = ns.ecdh.ECDH(curve=cv, private_key=K.SigningKey.from_secret_exponent(5, curve=cv))
            e.load_received_public_key(K.SigningKey.from_secret_exponent(5, curve=oc).verifying_key)
            e.generate_sharedsecret_bytes()
            ctx.violation("invalid_public_point_accepted:other_curve_key:ecdh", {"curve": cv.name, "other": oc.name}, rp)
        except Exception as e:
            ctx.exc(e)
        # the ECDH object re-targeted to the other curve while it still holds the key of this one (set_curve / attribute
        # assignment): whichever way the mixed state is reached, no secret may come out of a scalar and a point of two curves
        for route in ("set_curve", "assign_private_key", "assign_public_key"):
            ctx.ev()
            ctx.bin("ecdh_object_holding_keys_of_two_curves")
            try:
                sk_here = K.SigningKey.from_secret_exponent(7, curve=cv)
                sk_there = K.SigningKey.from_secret_exponent(9, curve=oc)
                if route == "set_curve":
                    e = ns.ecdh.ECDH(curve=cv, private_key=sk_here)
                    e.set_curve(oc)
                    e.load_received_public_key(sk_there.verifying_key)
                elif route == "assign_private_key":
                    e = ns.ecdh.ECDH(curve=oc, private_key=sk_there, public_key=sk_there.verifying_key)
                    e.private_key = sk_here
                else:
                    e = ns.ecdh.ECDH(curve=cv, private_key=sk_here, public_key=sk_here.verifying_key)
                    e.public_key = sk_there.verifying_key
                secret = e.generate_sharedsecret_bytes()
                ctx.violation("invalid_public_point_accepted:ecdh_object_holding_keys_of_two_curves:" + route, {"curve": cv.name, "other": oc.name, "secret_len": len(secret)}, dict(rp, route=route))
            except Exception as e_:
                ctx.exc(e_)
    else:
        ctx.bin("invalid_other_curve_point")
    # affine Point objects that belong to ANOTHER CurveFp (same p and a, other b = invalid-curve input; or another shipped curve)
    a_, b_ = int(cv.curve.a()), int(cv.curve.b())
    for _try in range(40):
        b2 = (b_ + 1 + _try) % p
        sib = EC.CurveFp(p, a_, b2, 1)
        x = rng.randrange(p)
        rhs = (x * x * x + a_ * x + b2) % p
        if p % 4 == 3:
            y = pow(rhs, (p + 1) // 4, p)
            if y * y % p != rhs:
                continue
        else:
            try:
                y = int(ns.numbertheory.square_root_mod_prime(rhs, p))
            except Exception:
                continue
        if (y * y - (x * x * x + a_ * x + b_)) % p == 0:
            continue
        ctx.bin("invalid_point_object_of_sibling_curve")
        for wname, mkpt in (("affine_point_of_sibling_curve", lambda: PT(sib, x, y)), ("jacobi_point_of_sibling_curve", lambda: PJ(sib, x, y, 1))):
            ctx.ev()
            ctx.distinct(cv.name, wname, x)
            try:
                vk_bad = K.VerifyingKey.from_public_point(mkpt(), curve=cv)
                ctx.violation("invalid_public_point_accepted:other_curve_point:" + wname, {"curve": cv.name, "x": x, "y": y, "sibling_b": b2}, dict(rp, x=hex(x), y=hex(y)))
                try:
                    e = ns.ecdh.ECDH(curve=cv, private_key=K.SigningKey.from_secret_exponent(7, curve=cv))
                    e.load_received_public_key(vk_bad)
                    e.generate_sharedsecret_bytes()
                    ctx.violation("invalid_public_point_accepted:other_curve_point:ecdh_computes_secret_with_it", {"curve": cv.name}, rp)
                except Exception as e2:
                    ctx.exc(e2)
            except Exception as e1:
                ctx.exc(e1)
        break
    if others:
        oc = others[0]
        ox, oy = ossl.point_mul(oc.openssl_name, 11)
        if ox < p and oy < p and (oy * oy - (ox * ox * ox + a_ * ox + b_)) % p:
            ctx.ev()
            try:
                K.VerifyingKey.from_public_point(PT(oc.curve, ox, oy), curve=cv)
                ctx.violation("invalid_public_point_accepted:other_curve_point:affine_point_of_other_shipped_curve", {"curve": cv.name, "other": oc.name}, rp)
            except Exception as e1:
                ctx.exc(e1)
    if int(cv.curve.cofactor() or 1) != 1:
        # cofactor-4 curve: on-curve points whose order is 4 or 4n (n*P is a point of order 4) do not belong to the
        # group the keys live in.  Points of order 2 / 2n are NOT judged: the library encodes infinity as y == 0, so
        # n*P (the two-torsion point) is indistinguishable from infinity for it - recorded only.
        found = 0
        for _try in range(400):
            x = rng.randrange(p)
            rhs = (x * x * x + a_ * x + b_) % p
            try:
                y = int(ns.numbertheory.square_root_mod_prime(rhs, p)) if rhs else 0
            except Exception:
                continue
            if y * y % p != rhs or y == 0:
                continue
            nP = S.mul(n, (x, y), p, a_)
            if nP is None:
                continue
            if nP[1] == 0:
                ctx.note("point_of_order_2n_not_judged")
                continue
            found += 1
            ctx.bin("invalid_point_outside_prime_order_subgroup")
            offer("outside_prime_order_subgroup", x, y)
            if found >= 3:
                break
    ctx.bin("invalid_infinity")
    for wname, fn in (("from_public_point", lambda: K.VerifyingKey.from_public_point(INF, curve=cv)), ("from_string_00", lambda: K.VerifyingKey.from_string(b"\x00", curve=cv)),
                      ("from_public_point_jacobi_inf", lambda: K.VerifyingKey.from_public_point(G * n if (G * n) is not INF else PJ(cv.curve, 0, 0, 1, n), curve=cv))):
        ctx.ev()
        try:
            fn()
            ctx.violation("invalid_public_point_accepted:infinity:" + wname, {"curve": cv.name}, rp)
        except Exception as e:
            ctx.exc(e)
    ctx.sample({"kind": "shipped", "curve": cv.name, "d": hex(d)})


def run_suite(ctx, spec):
    """the repository's own (hypothesis-driven) tests run on a SCRATCH COPY with the group-law monitor of
    bvm/suite_monitor_conftest.py wrapped around PointJacobi.__add__/double/__mul__/mul_add"""
    import json
    import os
    import shutil
    import subprocess
    import tempfile

    from ..load import REPO

    here = os.path.dirname(os.path.dirname(os.path.abspath(__file__)))
    tmp = tempfile.mkdtemp(prefix="c17-suite-", dir=os.environ.get("VERIF_SCRATCH"))
    try:
        # plain copy of the working tree under test (also works when $VERIF_REPO is not a git checkout)
        os.rmdir(tmp)
        shutil.copytree(REPO, tmp, ignore=shutil.ignore_patterns(".git", ".hypothesis", "__pycache__", "t", ".benchmarks", ".idea", ".github", "seed*"))
        pkg = os.path.join(tmp, "appnotes", "register_crypto_plugin", "ecdsa")
        shutil.copy(os.path.join(here, "suite_monitor_conftest.py"), os.path.join(pkg, "conftest.py"))
        out = os.path.join(tmp, "monitor.json")
        env = dict(os.environ, BVM_MONITOR_OUT=out, BVM_VERIF=os.path.dirname(here), PYTHONDONTWRITEBYTECODE="1")
        env.pop("VERIF_REPO", None)
        p = subprocess.run([sys_executable(), "-B", "-m", "pytest", "-q", "--no-header", "-p", "no:cacheprovider", "--timeout=1800", "--hypothesis-seed=%d" % ctx.seed, os.path.join("appnotes", "register_crypto_plugin", "ecdsa", spec["test"])],
                           cwd=tmp, env=env, stdout=subprocess.PIPE, stderr=subprocess.STDOUT, text=True, timeout=3000)
        if not os.path.exists(out):
            ctx.note("suite_monitor_produced_no_output")
            raise RuntimeError("suite monitor wrote nothing: " + p.stdout[-500:])
        st = json.load(open(out))
    finally:
        shutil.rmtree(tmp, ignore_errors=True)
    n = st["add"] + st["double"] + st["mul"] + st["mul_add"]
    ctx.ev(max(1, n))
    ctx.bin("repository_suite_under_group_law_monitor")
    for k in ("add", "double", "mul", "mul_add"):
        ctx.mon("suite_hook:" + k, st[k])
        ctx.distinct("suite", spec["test"], k, st[k])
    ctx.note("suite_ops_on_other_curves_not_judged", st.get("skipped_other_curve", 0))
    for v in st["violations"]:
        ctx.violation("group_law_broken_inside_repository_test_suite:" + v["what"], dict(v["detail"], test=spec["test"]), {"kind": "suite", "test": spec["test"]})
    ctx.sample({"kind": "suite", "test": spec["test"], "operations_checked": {k: st[k] for k in ("add", "double", "mul", "mul_add")}})


def sys_executable():
    import os
    import sys

    return "/venv/bin/python" if os.path.exists("/venv/bin/python") else sys.executable


def run_shard(spec, ctx):
    if spec["kind"] == "suite":
        return run_suite(ctx, spec)
    ns = load()
    if spec["kind"] == "small":
        run_small(ns, ctx, spec)
    else:
        run_shipped(ns, ctx, spec)


def replay(rec, ctx):
    ns = load()
    if rec.get("kind") == "small":
        run_small(ns, ctx, {"curves": [tuple(rec["curve"])]})
    else:
        names = [c.name for c in weierstrass_curves(ns)]
        run_shipped(ns, ctx, {"curve": names.index(rec["curve"])})
