"""C19 - key and point encodings round-trip and are byte-compatible with OpenSSL.

Oracles: OpenSSL (d2i/i2d, point2oct/oct2point) for both directions; equality of
decoded keys; exception-type monitor + accept/reject monitor over every truncation,
appended suffixes and single-byte mutations of valid encodings."""
import base64

from ..ctx import fmt_exc, raising_site
from ..load import load, weierstrass_curves
from ..refs import ecies, ossl

ID = "C19"
LEVEL = "exploration"
RULE = (
    "key cases: (curve of the 17, private scalar incl. small / leading-zero scalars and keys searched for leading-zero X or Y) x public formats {raw, uncompressed, "
    "compressed, hybrid; DER named/explicit x point forms; PEM} x private formats {raw; SEC1 and PKCS#8 DER named/explicit; PEM}: encode->decode equality, OpenSSL parses "
    "library output to the same key, library parses OpenSSL output to the same key, byte equality where canonical (SPKI / SEC1 with named curve, 27-byte P-256 header). "
    "malformed cases: EVERY proper prefix, 3 appended suffixes (must be rejected with the format pinned) and single-byte mutations over 12 replacement values of every "
    "valid encoding (only the exception type is judged). distinct = digest of (decoder, bytes); non-trivial = every case"
)
ASSUMPTIONS = [
    "documented decoder errors: UnexpectedDER, MalformedPointError, UnknownCurveError, ValueError (incl. binascii.Error)",
    "a single-byte mutation may yield another valid key and the library ignores optional private-key fields: acceptance is judged only for proper prefixes and appended bytes",
    "truncation / extension of point strings is judged with the expected point format pinned (with auto-detection a truncated raw string can be a valid compressed one)",
    "where the library accepts bytes OpenSSL rejects or vice versa (other than outputs of the two encoders) this is recorded, not judged",
]
TIMEOUT = {"quick": 1500, "thorough": 10 * 3600}
OPTIMIZED_SHARDS = ("mut02_0", "rt00")  # these shards also run under python -O
REPL = [0x00, 0x01, 0x02, 0x03, 0x04, 0x06, 0x30, 0x7F, 0x80, 0x81, 0xA0, 0xFF]
P256_HEADER = bytes.fromhex("3059301306072A8648CE3D020106082A8648CE3D03010703420004")


def plan(tier, seed):
    jobs = []
    for ci in range(17):
        jobs.append({"name": "rt%02d" % ci, "spec": {"kind": "roundtrip", "curve": ci}})
    # quick: NIST256p, SECP112r1, BRAINPOOLP160r1 and NIST224p (the only shipped field prime that is 1 mod 4: another square-root route)
    mut_curves = [2, 13, 6, 1] if tier == "quick" else list(range(17))
    for ci in mut_curves:
        parts = 3 if tier == "quick" else 4
        for p in range(parts):
            jobs.append({"name": "mut%02d_%d" % (ci, p), "spec": {"kind": "mutate", "curve": ci, "part": p, "parts": parts}})
    jobs.append({"name": "bec2hdr", "spec": {"kind": "bec2"}})
    # the very FIRST decodes of a process made by several threads at once (reader threads starting up): each shard is a fresh process
    for i in range(6 if tier == "quick" else 48):
        jobs.append({"name": "firstuse%02d" % i, "spec": {"kind": "firstuse", "i": i}})
    return jobs


def mandatory_bins(tier):
    b = ["curve_roundtrip", "pub_raw", "pub_uncompressed", "pub_compressed", "pub_hybrid", "pub_der_named", "pub_der_explicit", "pub_pem", "priv_raw", "priv_sec1_named", "priv_sec1_explicit",
         "priv_pkcs8_named", "priv_pkcs8_explicit", "priv_pem", "openssl_parses_library_output", "library_parses_openssl_output", "byte_equal_spki", "byte_equal_sec1", "leading_zero_coordinate",
         "leading_zero_scalar", "small_scalar", "p256_header", "raw_fmt_inverse", "reencode_after_decode", "bec2_raw_key_wrong_length", "bec2_der_input_in_non_canonical_form", "all_prefixes", "appended_suffix", "single_byte_mutations", "pem_cut", "openssl_compressed_spki", "openssl_explicit_params", "explicit_parameters_base_point_form", "pem_text_variants", "encodings_given_as_bytearray_or_memoryview", "pkcs8_with_attributes", "first_decodes_of_the_process_made_by_concurrent_threads"]
    return b


def pem_armor(der, label):
    b64 = base64.b64encode(der).decode()
    lines = [b64[i : i + 64] for i in range(0, len(b64), 64)]
    return ("-----BEGIN %s-----\n%s\n-----END %s-----\n" % (label, "\n".join(lines), label)).encode()


def keys_for(ns, ctx, cv, rng, nrand):
    """private scalars: edge, leading-zero scalar, keys with a leading-zero X or Y coordinate"""
    n = int(cv.order)
    name = cv.openssl_name
    L = (int(cv.curve.p()).bit_length() + 7) // 8
    out = [(1, "small_scalar"), (2, "small_scalar"), (n - 1, None), (rng.randrange(1, 1 << (n.bit_length() - 9)), "leading_zero_scalar")]
    found = 0
    for _ in range(3000):
        d = rng.randrange(1, n)
        x, y = ossl.point_mul(name, d)
        if x >> (8 * L - 8) == 0 or y >> (8 * L - 8) == 0:
            out.append((d, "leading_zero_coordinate"))
            found += 1
            if found >= 2:
                break
    for _ in range(nrand):
        out.append((rng.randrange(1, n), None))
    return out


def allowed(ns):
    return (ns.der.UnexpectedDER, ns.keys.MalformedPointError, ns.curves.UnknownCurveError, ValueError)


def run_roundtrip(ns, ctx, spec):
    K = ns.keys
    rng = ctx.rng
    cv = weierstrass_curves(ns)[spec["curve"]]
    name = cv.openssl_name
    quick = ctx.tier == "quick"
    ctx.bin("curve_roundtrip")
    ok_exc = allowed(ns)
    for d, tag in keys_for(ns, ctx, cv, rng, 2 if quick else 25):
        if tag:
            ctx.bin(tag)
        pub = ossl.point_mul(name, d)
        rp = {"kind": "roundtrip", "curve": cv.name, "d": hex(d)}
        ctx.ev()
        ctx.distinct(cv.name, d)
        try:
            sk = K.SigningKey.from_secret_exponent(d, curve=cv)
            vk = sk.verifying_key
        except Exception as e:
            ctx.violation("key_construction_raises", {"exc": fmt_exc(e)}, rp)
            continue
        if (int(vk.pubkey.point.x()), int(vk.pubkey.point.y())) != pub:
            ctx.violation("public_key_differs_from_openssl", {}, rp)
            continue

        def same_pub(k):
            return (int(k.pubkey.point.x()), int(k.pubkey.point.y())) == pub and k.curve == cv

        def same_priv(k):
            return int(k.privkey.secret_multiplier) == d and k.curve == cv and same_pub(k.verifying_key)

        def expect(what, fn, pred):
            ctx.ev()
            try:
                k = fn()
                ctx.mon("decode")
            except Exception as e:
                ctx.violation("valid_encoding_rejected:" + what, {"exc": fmt_exc(e), "curve": cv.name}, dict(rp, what=what))
                return None
            if not pred(k):
                ctx.violation("decoded_key_differs:" + what, {"curve": cv.name}, dict(rp, what=what))
            return k

        # ---- public: point strings ---------------------------------------------------------------------------------
        for form, oform in (("raw", None), ("uncompressed", ossl.POINT_UNCOMPRESSED), ("compressed", ossl.POINT_COMPRESSED), ("hybrid", ossl.POINT_HYBRID)):
            ctx.bin("pub_" + form)
            s = vk.to_string(form)
            expect("pub_string_" + form, lambda: K.VerifyingKey.from_string(s, curve=cv), same_pub)
            expect("pub_string_pinned_" + form, lambda: K.VerifyingKey.from_string(s, curve=cv, valid_encodings=[form]), same_pub)
            # the same encoding handed over in other buffer types (what a network / file layer delivers)
            ctx.bin("encodings_given_as_bytearray_or_memoryview")
            expect("pub_string_%s_as_bytearray" % form, lambda: K.VerifyingKey.from_string(bytearray(s), curve=cv), same_pub)
            expect("pub_string_%s_as_memoryview_of_bytearray" % form, lambda: K.VerifyingKey.from_string(memoryview(bytearray(s)), curve=cv), same_pub)
            if form != "raw":
                d_ = vk.to_der(form)
                expect("pub_der_%s_as_bytearray" % form, lambda: K.VerifyingKey.from_der(bytearray(d_)), same_pub)
            if oform is not None:
                os_ = ossl.encode_point(name, pub, oform)
                if s != os_:
                    ctx.violation("point_string_differs_from_openssl:" + form, {"lib": s, "openssl": os_}, rp)
                ctx.bin("openssl_parses_library_output")
                try:
                    if ossl.decode_point(name, s) != pub:
                        ctx.violation("openssl_decodes_library_point_to_other_key:" + form, {}, rp)
                except ossl.OsslError as e:
                    ctx.violation("openssl_rejects_library_point_string:" + form, {"err": str(e)}, rp)
            else:
                x, y = pub
                Lb = len(s) // 2
                if s != x.to_bytes(Lb, "big") + y.to_bytes(Lb, "big"):
                    ctx.violation("raw_point_string_is_not_x_then_y", {}, rp)
        # ---- public: DER / PEM ----------------------------------------------------------------------------------------------
        for params in ("named_curve", "explicit"):
            for form, oform in (("uncompressed", ossl.POINT_UNCOMPRESSED), ("compressed", ossl.POINT_COMPRESSED), ("hybrid", ossl.POINT_HYBRID)):
                ctx.bin("pub_der_" + ("named" if params == "named_curve" else "explicit"))
                try:
                    der_ = vk.to_der(form, curve_parameters_encoding=params)
                except Exception as e:
                    ctx.violation("encoder_raises:pub_der", {"exc": fmt_exc(e), "params": params, "form": form}, rp)
                    continue
                kk = expect("pub_der_%s_%s" % (params, form), lambda: K.VerifyingKey.from_der(der_), same_pub)
                if kk is not None:
                    # the decoded key is the same key: its default (named-curve) encoding equals the original one
                    ctx.bin("reencode_after_decode")
                    try:
                        if kk.to_der() != vk.to_der() or kk.to_pem() != vk.to_pem():
                            ctx.violation("decoded_key_reencodes_differently:pub_der_" + params, {"curve": cv.name, "form": form}, rp)
                    except Exception as e:
                        ctx.violation("decoded_key_cannot_be_reencoded:pub_der_" + params, {"curve": cv.name, "exc": fmt_exc(e)}, rp)
                ctx.bin("openssl_parses_library_output")
                try:
                    if ossl.parse_spki(der_) != pub:
                        ctx.violation("openssl_parses_library_spki_to_other_key", {"params": params, "form": form}, rp)
                except ossl.OsslError as e:
                    ctx.violation("openssl_rejects_library_spki:%s:%s" % (params, form), {"err": str(e), "der": der_}, rp)
                # OpenSSL's encoding of the same key, parsed by the library
                oder = ossl.pub_to_spki(name, pub, oform, explicit=(params == "explicit"))
                ctx.bin("library_parses_openssl_output")
                if form == "compressed":
                    ctx.bin("openssl_compressed_spki")
                if params == "explicit":
                    ctx.bin("openssl_explicit_params")
                kk = expect("openssl_spki_%s_%s" % (params, form), lambda: K.VerifyingKey.from_der(oder), same_pub)
                if kk is not None:
                    try:
                        if kk.to_der() != vk.to_der():
                            ctx.violation("decoded_key_reencodes_differently:openssl_spki_" + params, {"curve": cv.name, "form": form}, rp)
                    except Exception as e:
                        ctx.violation("decoded_key_cannot_be_reencoded:openssl_spki_" + params, {"curve": cv.name, "exc": fmt_exc(e)}, rp)
                if params == "named_curve":
                    ctx.bin("byte_equal_spki")
                    if der_ != oder:
                        ctx.violation("spki_bytes_differ_from_openssl:" + form, {"lib": der_, "openssl": oder}, rp)
                else:
                    # explicit parameters: OpenSSL adds the optional seed for some curves, so whole-file equality is not required;
                    # but the base point inside the parameters is written in the same point form as the key (as OpenSSL does)
                    ctx.bin("explicit_parameters_base_point_form")
                    genc = ossl.encode_point(name, ossl.point_mul(name, 1), oform)
                    needle = b"\x04" + (bytes((len(genc),)) if len(genc) < 128 else b"\x81" + bytes((len(genc),))) + genc
                    if needle not in oder:
                        raise AssertionError("harness: OpenSSL's explicit parameters do not hold the base point in form %s" % form)
                    if needle not in der_:
                        ctx.violation("explicit_parameters_base_point_not_in_the_requested_point_form:" + form, {"lib": der_, "openssl": oder}, rp)
        ctx.bin("pub_pem")
        pem = vk.to_pem()
        expect("pub_pem", lambda: K.VerifyingKey.from_pem(pem), same_pub)
        expect("pub_pem_str", lambda: K.VerifyingKey.from_pem(pem.decode()), same_pub)
        opem = pem_armor(ossl.pub_to_spki(name, pub), "PUBLIC KEY")
        expect("openssl_pub_pem", lambda: K.VerifyingKey.from_pem(opem), same_pub)
        # the same PEM text with CRLF line ends, with leading text, without the final line end, as str
        ctx.bin("pem_text_variants")
        for vn, vt in (("crlf", opem.replace(b"\n", b"\r\n")), ("crlf_str", opem.replace(b"\n", b"\r\n").decode()), ("no_final_newline", opem.rstrip(b"\n"))):
            expect("openssl_pub_pem_" + vn, lambda vt=vt: K.VerifyingKey.from_pem(vt), same_pub)
        if pem.replace(b"\r", b"").strip() != opem.strip():
            ctx.note("pub_pem_armor_differs_from_standard_64_column_form")
        # ---- private ------------------------------------------------------------------------------------------------------------
        ctx.bin("priv_raw")
        s = sk.to_string()
        expect("priv_string", lambda: K.SigningKey.from_string(s, curve=cv), same_priv)
        if s != d.to_bytes(len(s), "big"):
            ctx.violation("raw_private_string_is_not_the_scalar", {}, rp)
        for fmt in ("ssleay", "pkcs8"):
            for params in ("named_curve", "explicit"):
                ctx.bin("priv_%s_%s" % ("sec1" if fmt == "ssleay" else "pkcs8", "named" if params == "named_curve" else "explicit"))
                for form in ("uncompressed", "compressed"):
                    try:
                        der_ = sk.to_der(point_encoding=form, format=fmt, curve_parameters_encoding=params)
                    except Exception as e:
                        ctx.violation("encoder_raises:priv_der", {"exc": fmt_exc(e), "fmt": fmt, "params": params}, rp)
                        continue
                    kk = expect("priv_der_%s_%s_%s" % (fmt, params, form), lambda: K.SigningKey.from_der(der_), same_priv)
                    if kk is not None:
                        ctx.bin("reencode_after_decode")
                        try:
                            if kk.to_der() != sk.to_der() or kk.to_der(format="pkcs8") != sk.to_der(format="pkcs8") or kk.verifying_key.to_der() != vk.to_der():
                                ctx.violation("decoded_key_reencodes_differently:priv_der_%s_%s" % (fmt, params), {"curve": cv.name}, rp)
                        except Exception as e:
                            ctx.violation("decoded_key_cannot_be_reencoded:priv_der_%s_%s" % (fmt, params), {"curve": cv.name, "exc": fmt_exc(e)}, rp)
                    ctx.bin("openssl_parses_library_output")
                    try:
                        od, opub = ossl.parse_private(der_)
                        if od != d or (opub is not None and opub != pub):
                            ctx.violation("openssl_parses_library_private_key_to_other_key", {"fmt": fmt, "params": params}, rp)
                    except ossl.OsslError as e:
                        ctx.violation("openssl_rejects_library_private_key:%s:%s:%s" % (fmt, params, form), {"err": str(e), "der": der_}, rp)
                oform = ossl.POINT_UNCOMPRESSED
                oder = (ossl.priv_to_sec1 if fmt == "ssleay" else ossl.priv_to_pkcs8)(name, d, oform, explicit=(params == "explicit"))
                ctx.bin("library_parses_openssl_output")
                expect("openssl_private_%s_%s" % (fmt, params), lambda: K.SigningKey.from_der(oder), same_priv)
                if fmt == "ssleay" and params == "named_curve":
                    ctx.bin("byte_equal_sec1")
                    mine = sk.to_der(point_encoding="uncompressed", format="ssleay")
                    if mine != oder:
                        ctx.violation("sec1_bytes_differ_from_openssl", {"lib": mine, "openssl": oder}, rp)
                if fmt == "pkcs8" and params == "named_curve":
                    mine = sk.to_der(point_encoding="uncompressed", format="pkcs8")
                    if mine != oder:
                        ctx.note("pkcs8_bytes_differ_from_openssl(optional_fields)")
        ctx.bin("priv_pem")
        for fmt, label in (("ssleay", "EC PRIVATE KEY"), ("pkcs8", "PRIVATE KEY")):
            pem = sk.to_pem(format=fmt)
            expect("priv_pem_" + fmt, lambda: K.SigningKey.from_pem(pem), same_priv)
            oder = (ossl.priv_to_sec1 if fmt == "ssleay" else ossl.priv_to_pkcs8)(name, d)
            opem = pem_armor(oder, label)
            expect("openssl_priv_pem_" + fmt, lambda: K.SigningKey.from_pem(opem), same_priv)
            if fmt == "pkcs8":
                # PKCS#8 version 0 with the optional attributes [0] element behind the private key (as written e.g. by Windows CNG;
                # OpenSSL reads such keys): the attributes are to be ignored
                o8 = ossl.priv_to_pkcs8(name, d)
                attrs = bytes.fromhex("a00d300b0603551d0f310403020080")
                body8 = strip_outer_sequence(o8) + attrs
                with_attrs = b"\x30" + der_len(len(body8)) + body8
                ctx.bin("pkcs8_with_attributes")
                try:
                    ossl_ok = ossl.parse_private(with_attrs)[0] == d  # the construction is only used when OpenSSL itself reads it
                except Exception:
                    ossl_ok = False
                if ossl_ok:
                    expect("pkcs8_version0_with_attributes", lambda: K.SigningKey.from_der(with_attrs), same_priv)
            expect("openssl_priv_pem_crlf_" + fmt, lambda: K.SigningKey.from_pem(opem.replace(b"\n", b"\r\n")), same_priv)
            # OpenSSL writes EC PARAMETERS before the key in 'openssl ecparam -genkey' output
            if fmt == "ssleay":
                oid_der = bytes(ns.der.encode_oid(*cv.oid))
                expect("openssl_priv_pem_with_ec_parameters_block", lambda: K.SigningKey.from_pem(pem_armor(oid_der, "EC PARAMETERS") + opem), same_priv)
    ctx.sample({"kind": "roundtrip", "curve": cv.name, "last_scalar": hex(d)})


def encodings_for_mutation(ns, cv, d):
    """list of (name, bytes, decoder(bytes, pinned) , judge_truncation)"""
    K = ns.keys
    sk = K.SigningKey.from_secret_exponent(d, curve=cv)
    vk = sk.verifying_key
    out = []
    for form in ("raw", "uncompressed", "compressed", "hybrid"):
        out.append(("pub_string_" + form, vk.to_string(form), lambda b, form=form: K.VerifyingKey.from_string(b, curve=cv, valid_encodings=[form]), True))
        out.append(("pub_string_auto_" + form, vk.to_string(form), lambda b: K.VerifyingKey.from_string(b, curve=cv), False))
    out.append(("pub_der_named", vk.to_der(), lambda b: K.VerifyingKey.from_der(b), True))
    out.append(("pub_der_named_compressed", vk.to_der("compressed"), lambda b: K.VerifyingKey.from_der(b), True))
    out.append(("pub_der_explicit", vk.to_der(curve_parameters_encoding="explicit"), lambda b: K.VerifyingKey.from_der(b), True))
    out.append(("priv_string", sk.to_string(), lambda b: K.SigningKey.from_string(b, curve=cv), False))
    out.append(("priv_sec1_named", sk.to_der(), lambda b: K.SigningKey.from_der(b), True))
    out.append(("priv_pkcs8_named", sk.to_der(format="pkcs8"), lambda b: K.SigningKey.from_der(b), True))
    out.append(("priv_sec1_explicit", sk.to_der(curve_parameters_encoding="explicit"), lambda b: K.SigningKey.from_der(b), True))
    out.append(("priv_pkcs8_explicit", sk.to_der(format="pkcs8", curve_parameters_encoding="explicit"), lambda b: K.SigningKey.from_der(b), True))
    out.append(("openssl_spki_explicit", ossl.pub_to_spki(cv.openssl_name, ossl.point_mul(cv.openssl_name, d), explicit=True), lambda b: K.VerifyingKey.from_der(b), True))
    out.append(("openssl_pkcs8", ossl.priv_to_pkcs8(cv.openssl_name, d), lambda b: K.SigningKey.from_der(b), True))
    pems = [("pub_pem", vk.to_pem(), lambda b: K.VerifyingKey.from_pem(b)), ("priv_pem_sec1", sk.to_pem(), lambda b: K.SigningKey.from_pem(b)), ("priv_pem_pkcs8", sk.to_pem(format="pkcs8"), lambda b: K.SigningKey.from_pem(b))]
    return out, pems


def run_mutate(ns, ctx, spec):
    rng = ctx.rng
    cv = weierstrass_curves(ns)[spec["curve"]]
    n = int(cv.order)
    ok_exc = allowed(ns)
    d = rng.randrange(1, n)
    encs, pems = encodings_for_mutation(ns, cv, d)
    mine = [e for i, e in enumerate(encs) if i % spec["parts"] == spec["part"]]

    def offer(what, fn, data, judge_accept, rp):
        ctx.ev()
        ctx.distinct(what.split(":")[0], data)
        try:
            fn(data)
            ctx.mon("decoder_call")
            if judge_accept:
                ctx.violation("malformed_encoding_accepted:" + what, {"curve": cv.name, "len": len(data)}, rp)
            else:
                ctx.note("mutation_decodes")
        except ok_exc as e:
            ctx.mon("decoder_call")
            ctx.exc(e)
        except Exception as e:
            ctx.mon("decoder_call")
            f, fu = raising_site(e)
            ctx.violation("decoder_raises_undocumented_error:%s:%s:%s" % (type(e).__name__, f, fu), {"what": what, "curve": cv.name, "msg": str(e)[:100]}, rp)

    for ename, data, dec, judge in mine:
        rp0 = {"kind": "mutate", "curve": cv.name, "d": hex(d), "enc": ename}
        # the valid encoding itself
        try:
            dec(data)
        except Exception as e:
            ctx.violation("valid_encoding_rejected:" + ename, {"exc": fmt_exc(e), "curve": cv.name}, rp0)
            continue
        # every proper prefix
        for cut in range(len(data)):
            offer("%s:truncated" % ename, dec, data[:cut], judge, dict(rp0, data=data[:cut].hex()))
        ctx.bin("all_prefixes")
        # appended suffixes
        for suf in (b"\x00", b"\x30\x00", data[:1] + b"\xff"):
            offer("%s:extended" % ename, dec, data + suf, judge, dict(rp0, data=(data + suf).hex()))
        ctx.bin("appended_suffix")
        # every position x replacement values: only the exception type is judged
        step = 1 if ctx.tier != "quick" or len(data) < 140 else 2
        for pos in range(0, len(data), step):
            for v in REPL:
                if data[pos] == v:
                    continue
                m = data[:pos] + bytes((v,)) + data[pos + 1 :]
                offer("%s:mutated" % ename, dec, m, False, dict(rp0, data=m.hex()))
        ctx.bin("single_byte_mutations")
        # deletions of a single byte
        for pos in range(0, len(data), 3):
            m = data[:pos] + data[pos + 1 :]
            offer("%s:byte_deleted" % ename, dec, m, False, dict(rp0, data=m.hex()))
    if spec["part"] == 0:
        for pname, pem, dec in pems:
            rp0 = {"kind": "mutate", "curve": cv.name, "d": hex(d), "enc": pname}
            step = 3 if ctx.tier == "quick" else 1
            for cut in range(0, len(pem), step):
                offer("%s:cut" % pname, dec, pem[:cut], False, dict(rp0, data=pem[:cut].hex()))
            for pos in range(0, len(pem), 7):
                for v in (b"=", b"-", b"\n", b"!", b"A", b"\xff"):
                    m = pem[:pos] + v + pem[pos + 1 :]
                    offer("%s:mutated" % pname, dec, m, False, dict(rp0, data=m.hex()))
            ctx.bin("pem_cut")
    ctx.sample({"kind": "mutate", "curve": cv.name, "encodings": [e[0] for e in mine]})


def der_len(n):
    if n < 128:
        return bytes((n,))
    b = n.to_bytes((n.bit_length() + 7) // 8, "big")
    return bytes((0x80 | len(b),)) + b


def strip_outer_sequence(der_):
    """content octets of the outermost SEQUENCE"""
    assert der_[0] == 0x30
    if der_[1] < 128:
        return der_[2 : 2 + der_[1]]
    k = der_[1] & 0x7F
    n = int.from_bytes(der_[2 : 2 + k], "big")
    return der_[2 + k : 2 + k + n]


def run_bec2(ns, ctx, spec):
    """the fixed 27-byte P-256 header BEC2 uses to convert between DER and raw 64-byte public keys"""
    rng = ctx.rng
    C = ns.crypto
    P = ns.plugin
    for i in range(60 if ctx.tier == "quick" else 2000):
        d = (1, 2, ecies.P256_N - 1)[i] if i < 3 else rng.randrange(1, ecies.P256_N)
        pub = ecies.pub_of(d)
        raw = pub[0].to_bytes(32, "big") + pub[1].to_bytes(32, "big")
        rp = {"kind": "bec2", "d": hex(d)}
        ctx.ev()
        ctx.distinct("bec2", d)
        ctx.bin("p256_header")
        ospki = ossl.pub_to_spki("prime256v1", pub)
        if ospki != P256_HEADER + raw:
            raise AssertionError("harness: OpenSSL SPKI for P-256 is not header+raw")
        try:
            k = C.create_public_ecc_key_from_raw_fmt(raw)
            der_ = k.to_der_fmt()
            back = k.to_raw_bin_fmt()
            k2 = C.create_public_ecc_key_from_der_fmt(ospki)
            ctx.mon("raw_der_conversion")
        except Exception as e:
            ctx.violation("bec2_raw_der_conversion_raises", {"exc": fmt_exc(e)}, rp)
            continue
        ctx.bin("raw_fmt_inverse")
        if der_ != ospki:
            ctx.violation("bec2_der_of_raw_key_differs_from_openssl_spki", {"got": der_, "expected": ospki}, rp)
        if back != raw or k2.to_raw_bin_fmt() != raw:
            ctx.violation("bec2_raw_format_not_inverse", {"got": back, "expected": raw}, rp)
        # the raw format is exactly 64 bytes X|Y: other lengths - even when they are another valid encoding of the point - are refused
        bads = [raw[:-1], raw[1:], raw + b"\x00", b"\x04" + raw, ossl.encode_point("prime256v1", pub, ossl.POINT_COMPRESSED), ossl.encode_point("prime256v1", pub, ossl.POINT_HYBRID), raw[:32], b"", raw + raw]
        for bad in bads[i % 3 :: 3]:
            ctx.ev()
            ctx.bin("bec2_raw_key_wrong_length")
            try:
                kb = C.create_public_ecc_key_from_raw_fmt(bad)
                ctx.violation("bec2_raw_key_of_wrong_length_accepted", {"len": len(bad), "first": bad[:1], "gives_raw_len": len(kb.to_raw_bin_fmt())}, rp)
            except Exception as e:
                ctx.exc(e)
        # the same key in the other DER forms OpenSSL writes (compressed / hybrid point, explicit curve parameters): whatever the
        # DER input looked like, the raw form is X|Y and the DER form written is the canonical header + X|Y
        for form, explicit, fname in ((ossl.POINT_COMPRESSED, False, "compressed"), (ossl.POINT_HYBRID, False, "hybrid"), (ossl.POINT_UNCOMPRESSED, True, "explicit"), (ossl.POINT_COMPRESSED, True, "explicit_compressed"))[i % 2 :: 2]:
            alt = ossl.pub_to_spki("prime256v1", pub, form, explicit)
            ctx.ev()
            ctx.bin("bec2_der_input_in_non_canonical_form")
            try:
                k3 = C.create_public_ecc_key_from_der_fmt(alt)
            except Exception as e:
                ctx.exc(e)  # refusing such input is not judged here (C19's decoders are judged on the ecdsa API)
                continue
            try:
                r3, d3 = k3.to_raw_bin_fmt(), k3.to_der_fmt()
            except Exception as e:
                ctx.violation("bec2_raw_der_conversion_raises", {"exc": fmt_exc(e), "der_input_form": fname}, rp)
                continue
            if r3 != raw:
                ctx.violation("bec2_raw_form_of_key_loaded_from_non_canonical_der_is_not_x_y", {"der_input_form": fname, "raw_len": len(r3)}, dict(rp, form=fname))
            elif d3 != ospki and d3[len(d3) - 64 :] != raw:
                ctx.violation("bec2_der_of_key_loaded_from_non_canonical_der", {"der_input_form": fname}, dict(rp, form=fname))
        priv = P.PrivateEccKeyProxy.create_from_der_fmt(ecies.sec1_der(d))
        if priv.public_key.to_raw_bin_fmt() != raw:
            ctx.violation("bec2_private_key_from_openssl_sec1_gives_other_public_key", {}, rp)
    ctx.sample({"kind": "bec2", "header": P256_HEADER})


def run_firstuse(ns, ctx, spec):
    """Named-curve keys written by OpenSSL, decoded for the first time in this process by several threads at once, with a yield after
    every source line of the curve lookup / DER / key loading code.  Each must decode to the key OpenSSL encoded; afterwards the same
    decodes are repeated sequentially (and must agree)."""
    from ..sched import yieldrun

    K = ns.keys
    rng = ctx.rng
    curves = weierstrass_curves(ns)
    i = spec["i"]
    nthreads = (2, 3, 5, 8)[i % 4]
    route = ("spki", "sec1", "pkcs8", "pem_pub", "mixed", "plugin")[i % 6]
    # late entries of the curve list first: they are what an incompletely initialised lookup would miss
    order = list(reversed(curves)) if i % 2 == 0 else rng.sample(curves, len(curves))
    picks = order[:nthreads]
    bodies = []
    meta = []
    for j, cv in enumerate(picks):
        name = cv.openssl_name
        d = rng.randrange(1, int(cv.order))
        pub = ossl.point_mul(name, d)
        r = route if route != "mixed" else ("spki", "sec1", "pkcs8", "pem_pub")[j % 4]
        if r == "plugin" and cv.name != "NIST256p":
            r = "spki"
        if r == "spki":
            enc = ossl.pub_to_spki(name, pub)
            fn = lambda enc=enc: K.VerifyingKey.from_der(enc)  # noqa
            pred = "pub"
        elif r == "pem_pub":
            enc = pem_armor(ossl.pub_to_spki(name, pub), "PUBLIC KEY")
            fn = lambda enc=enc: K.VerifyingKey.from_pem(enc)  # noqa
            pred = "pub"
        elif r == "sec1":
            enc = ossl.priv_to_sec1(name, d)
            fn = lambda enc=enc: K.SigningKey.from_der(enc)  # noqa
            pred = "priv"
        elif r == "pkcs8":
            enc = ossl.priv_to_pkcs8(name, d)
            fn = lambda enc=enc: K.SigningKey.from_der(enc)  # noqa
            pred = "priv"
        else:
            enc = ossl.pub_to_spki(name, pub)
            fn = lambda enc=enc: ns.plugin.PublicEccKeyProxy.create_from_der_fmt(enc).public_key  # noqa
            pred = "pub"
        bodies.append(fn)
        meta.append((cv, d, pub, r, pred, enc))
        ctx.distinct("firstuse", cv.name, r, d)

    def judge(k, cv, d, pub, pred):
        vk = k.verifying_key if pred == "priv" else k
        if pred == "priv" and int(k.privkey.secret_multiplier) != d:
            return False
        return (int(vk.pubkey.point.x()), int(vk.pubkey.point.y())) == pub and vk.curve == cv

    owners = [ns.curves, ns.der, K.VerifyingKey, K.SigningKey]
    codes = yieldrun.code_objects_of(*owners)
    results, yields = yieldrun.run_concurrently(bodies, codes, sleep=0.0002, max_yields=6000, timeout=120, stagger=(0.0, 0.001, 0.004, 0.015)[(i // 2) % 4])
    ctx.add_extra("yield_points_hit_in_first_use_runs", yields)
    ctx.bin("first_decodes_of_the_process_made_by_concurrent_threads")
    ctx.bin("first_use_threads_%d" % nthreads)
    for (cv, d, pub, r, pred, enc), res in zip(meta, results):
        ctx.ev()
        rp = {"kind": "firstuse", "i": i, "curve": cv.name, "route": r}
        if res is None:
            ctx.note("first-use decode still running after the watchdog (inconclusive)")
            continue
        ctx.mon("decode")
        ctx.mon("oracle:concurrent_first_decode_vs_openssl_key")
        if res[0] == "exc":
            ctx.violation("valid_encoding_rejected_when_first_decodes_run_concurrently", {"curve": cv.name, "route": r, "exc": res[1][:200], "threads": nthreads}, rp)
        elif not judge(res[1], cv, d, pub, pred):
            ctx.violation("decoded_key_differs_when_first_decodes_run_concurrently", {"curve": cv.name, "route": r, "threads": nthreads}, rp)
    for (cv, d, pub, r, pred, enc), fn in zip(meta, bodies):
        ctx.ev()
        try:
            if not judge(fn(), cv, d, pub, pred):
                ctx.violation("decoded_key_differs_after_concurrent_first_use", {"curve": cv.name, "route": r}, {"kind": "firstuse", "i": i})
        except Exception as e:
            ctx.violation("valid_encoding_rejected_after_concurrent_first_use", {"curve": cv.name, "route": r, "exc": fmt_exc(e)}, {"kind": "firstuse", "i": i})


def run_shard(spec, ctx):
    ns = load()
    k = spec["kind"]
    if k == "firstuse":
        run_firstuse(ns, ctx, spec)
    elif k == "roundtrip":
        run_roundtrip(ns, ctx, spec)
    elif k == "mutate":
        run_mutate(ns, ctx, spec)
    else:
        run_bec2(ns, ctx, spec)


def replay(rec, ctx):
    ns = load()
    names = [c.name for c in weierstrass_curves(ns)]
    if rec.get("kind") == "firstuse":
        run_firstuse(ns, ctx, {"i": rec["i"]})
    elif rec.get("kind") == "bec2":
        run_bec2(ns, ctx, {})
    elif rec.get("kind") == "mutate":
        run_mutate(ns, ctx, {"curve": names.index(rec["curve"]), "part": 0, "parts": 1})
    else:
        run_roundtrip(ns, ctx, {"curve": names.index(rec["curve"])})
