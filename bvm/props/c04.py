"""C04 - damaged or truncated files are never silently accepted as different content.

Fault workload (exhaustive per authentic file): every byte position x {8 bit flips,
00, FF, +1}, every proper prefix of the binary, every proper prefix of the text,
appended suffixes, every single-bit change of the session key.  Oracle: the reader
raises, or returns exactly the original content."""
import io

from ..ctx import fmt_exc
from ..gen import bec2 as GB
from ..gen import files as G
from ..load import load
from ..refs import container
from ..refs import layout as L
from ..refs.layout import MComp

ID = "C04"
LEVEL = "fault_enumeration"
RULE = (
    "fault = (authentic file, damage); for every authentic file ALL single-byte replacements (8 bit flips, 00, FF, +1 at every position), ALL "
    "proper prefixes of the binary and of the text (character granularity), a small alphabet of appended suffixes, and ALL 128 single-bit "
    "changes of the session key (BEC2: of the decryptor key and of the key inside a re-wrapped block) are applied; the real reader (MAC "
    "checking on) must raise or return the original comments/components(/session key). distinct = digest of the damaged text and key; "
    "non-trivial = damage that changes the bytes the reader sees"
)
ASSUMPTIONS = [
    "any exception = 'reports an error' (type is C14's business)",
    "damage that maps to the same binary (white space, the tolerated blank line) or that the format does not bind to the content (bytes of a pass-through auth block, zero padding of an AES frame) may return the original content",
    "ECC-protected files get all key flips and the flips inside their auth-block region; the full per-byte sweep runs on customer-key / update-block files (pure-Python P-256 costs 30 ms per read)",
]
TIMEOUT = {"quick": 900, "thorough": 8 * 3600}
NSH = 16
REPL = [("flip%d" % b, b) for b in range(8)] + [("set00", None), ("setFF", None), ("plus1", None)]
BIN_SUFFIXES = [b"\x00", b"\x00\x00", b"\xff", b"\x41", bytes(16), b"\xff" * 40]
TXT_SUFFIXES = ["\n", " ", "00", "0", "\n\n", "41\n"]
FIELDS = ["signature", "dirsize", "entry_len", "adr", "stored", "declared", "payload_mac", "desc_len", "desc", "entry_mac", "sentinel", "payload"]
BEC2_FIELDS = ["auth_tag", "auth_len", "auth_value", "auth_end"]


def plan(tier, seed):
    n = 96 if tier == "quick" else 640
    jobs = [{"name": "faults%02d" % i, "spec": {"n": n // NSH, "i": i}} for i in range(NSH)]
    # the same sweep with the interpreter in -O mode (assert statements stripped): checks must not live in asserts
    jobs += [{"name": "faultsO%02d" % i, "optimize": True, "spec": {"n": 2 if tier == "quick" else 10, "i": i, "optimized": True}} for i in range(2 if tier == "quick" else 8)]
    if tier == "quick":
        jobs += [{"name": "bigpayload0", "spec": {"kind": "bigpayload", "lens": [0x8000], "samples": 6}}, {"name": "bigpayload1", "spec": {"kind": "bigpayload", "lens": [33001], "samples": 6}}]
    else:
        jobs += [{"name": "bigpayload%d" % i, "spec": {"kind": "bigpayload", "lens": [ln], "samples": 40}} for i, ln in enumerate((0x8000, 33001, 0x10000, 70001, 0x7FFF, 140000))]
    return jobs


def mandatory_bins(tier):
    b = ["payload_of_32k_or_more"] + ["flip_in:" + f for f in FIELDS + BEC2_FIELDS]
    b += ["cut_inside_dirsize", "cut_after_signature", "cut_drops_only_trailing_zeros_of_last_payload", "cut_inside_hex_pair", "cut_inside_comments", "cut_removes_only_final_newline",
          "binary_prefix", "text_prefix", "binary_suffix", "text_suffix", "key_bit_flip_bf3", "key_buffer_changed_in_place_after_a_successful_read", "key_bit_flip_bec2_decryptor", "key_bit_flip_bec2_rewrapped", "bf3", "bec2",
          "bec2_ecc", "encrypted_component", "zero_components", "three_components", "payload_len_1", "payload_len_16", "payload_len_17", "damage_returns_original_content", "payload_longer_than_1024", "two_identical_payloads", "unchecked_read_of_the_same_file_first", "interpreter_in_optimized_mode"]
    return b


def finish(agg, tier):
    return {"exhaustive": True, "exhaustive_scope": "per authentic file: all byte positions x 11 replacement classes, all proper prefixes of binary and text, all 128 session-key bit flips (the set of authentic files itself is a sample)"}


def ecies_n():
    from ..refs import ecies

    return ecies.P256_N


def field_map(binary, kind):
    """list of (start, end, name) regions of an authentic binary"""
    regs = []
    if kind == "bec2":
        blocks, pos = L.parse_bec2_header(binary)
        regs.append((0, len(L.BEC2_SIG), "signature"))
        p = len(L.BEC2_SIG)
        for t, v in blocks:
            regs += [(p, p + 1, "auth_tag"), (p + 1, p + 2, "auth_len"), (p + 2, p + 2 + len(v), "auth_value")]
            p += 2 + len(v)
        regs.append((p, p + 2, "auth_end"))
    else:
        pos = len(L.BF3_SIG)
        regs.append((0, pos, "signature"))
    regs.append((pos, pos + 4, "dirsize"))
    ents = L.parse_body(binary, pos, None, False)
    p = pos + 4
    for e in ents:
        n = len(e.raw)
        dl = e.raw[28]
        regs += [(p, p + 1, "entry_len"), (p + 1, p + 5, "adr"), (p + 5, p + 9, "stored"), (p + 9, p + 13, "declared"), (p + 13, p + 29, "payload_mac"), (p + 29, p + 30, "desc_len")]
        if dl:
            regs.append((p + 30, p + 30 + dl, "desc"))
        regs.append((p + 30 + dl, p + 1 + n, "entry_mac"))
        p += 1 + n
    regs.append((p, p + 1, "sentinel"))
    for e in ents:
        regs.append((e.adr, e.adr + e.stored, "payload"))
    return regs


def region_of(regs, pos):
    for a, b, n in regs:
        if a <= pos < b:
            return n
    return "?"


class Authentic:
    pass


def make_authentic(ns, rng, idx):
    """builds an authentic file with the real writer, checks it with the independent
    parser, and returns everything the oracle needs"""
    a = Authentic()
    a.long_payload = False
    a.duplicate_payload = False
    shapes = idx % 12
    ncomp = (0, 1, 3, 1, 2, 1, 1, 3, 1, 2, 1, 1)[shapes]
    comps = []
    lens = {1: [16], 3: [1, 17, 33], 2: [15, 40]}.get(ncomp, [])
    for j in range(ncomp):
        ln = lens[j] if idx % 3 == 0 else rng.choice((1, 2, 5, 16, 17, 31, 40, 41, 60))
        blob = G.gen_payload(rng, ln)
        if j == ncomp - 1 and idx % 2 == 0 and ln > 1:
            blob = blob[:-1].replace(b"\0", b"\1") + b"\0"  # last payload ends in exactly one zero byte
        declared = len(blob) if rng.random() < 0.6 else rng.randrange(1, len(blob) + 1)
        comps.append(MComp(G.gen_desc(rng, maxbytes=24), blob, declared, False))
    if idx % 16 == 5 and comps:
        # one long payload (> 1 KiB): MAC chaining over many blocks; byte positions are sampled for this file
        comps[0] = MComp(comps[0].desc, rng.randbytes(1500 if idx % 32 == 5 else 2100), None, False)
        a.long_payload = True
    if idx % 16 in (6, 13) and comps:
        # two byte-identical payloads (e.g. the same image for two hardware variants)
        comps.append(MComp([(0xC4, b"\x00\x01")], comps[0].blob, comps[0].declared, False))
        a.duplicate_payload = True
    if shapes in (3, 7, 9, 10):
        blob = G.gen_payload(rng, rng.choice((3, 16, 20)))
        comps.append(MComp([(0xC3, b"\x03"), (0xC2, b"\x02"), (0xC1, b"\x03"), (0xC5, b"\x01")], blob, len(blob), True))
    comments = G.gen_comments(rng)[:3]
    a.case = G.Case(comments, comps)
    a.kind = "bec2" if idx % 2 else "bf3"
    a.key = G.gen_key(rng) if a.kind == "bf3" else rng.randbytes(16)
    a.specs = None
    if a.kind == "bec2":
        pick = (idx // 2) % 6
        kinds = [("cust",), ("update",), ("cust", "update"), ("update", "cust"), ("ecc",), ("cust", "ecc", "update")][pick]
        a.specs = GB.gen_blocks(rng, kinds)
        f = ns.bec2file.Bec2File(G.build_real(ns, a.case), GB.real_auth_blocks(ns, a.specs), a.key)
        a.binary = f.to_binary(GB.write_encryptors(ns, a.specs))
        a.has_ecc = "ecc" in kinds
    else:
        a.binary = L.BF3_SIG + G.build_real(ns, a.case).to_binary(len(L.BF3_SIG), a.key)
        a.has_ecc = False
    a.text = L.text_of(comments, a.binary)
    a.regs = field_map(a.binary, a.kind)
    return a


def read(ns, a, text, key=None, encs=None):
    if a.kind == "bf3":
        return ns.bf3file.Bf3File.read_file(io.StringIO(text), True, a.key if key is None else key)
    return ns.bec2file.Bec2File.read_file(io.StringIO(text), GB.read_encryptors(ns, a.specs) if encs is None else encs, True)


def verdict(ns, ctx, a, what, text, detail, key=None, encs=None, changed=True, replay_rec=None):
    """runs the real reader on the damaged text and applies the oracle"""
    ctx.ev()
    if changed:
        ctx.distinct(text, key)
    try:
        res = read(ns, a, text, key, encs)
        ctx.mon("reader_returned")
    except Exception as e:
        ctx.mon("reader_raised")
        ctx.exc(e)
        return "error"
    if a.kind == "bec2":
        d = G.diff_file(res.bf3file, a.case)
        if bytes(res.session_key) != a.key:
            d.append("session_key")
    else:
        d = G.diff_file(res, a.case)
    if d:
        mech = "damaged_file_accepted_with_different_content:%s:%s" % (what, d[0].split("[")[0])
        ctx.violation(mech, dict(detail, diff=d, kind=a.kind), replay_rec if replay_rec is not None else {"kind": a.kind, "case": a.case.to_json(), "key": a.key.hex(), "specs": GB.spec_json(a.specs) if a.specs else None, "damaged_text": text if len(text) < 6000 else None, "reader_key": key.hex() if key else None})
        return "violation"
    ctx.bin("damage_returns_original_content")
    return "same"


def idx_of(a):
    return sum(a.key) + len(a.binary)


def run_authentic(ns, ctx, a, rng, full=True):
    ctx.bin(a.kind)
    if a.long_payload:
        ctx.bin("payload_longer_than_1024")
    if a.duplicate_payload:
        ctx.bin("two_identical_payloads")
    if a.has_ecc:
        ctx.bin("bec2_ecc")
    if any(c.encrypted for c in a.case.comps):
        ctx.bin("encrypted_component")
    if not a.case.comps:
        ctx.bin("zero_components")
    if len([c for c in a.case.comps if not c.encrypted]) == 3:
        ctx.bin("three_components")
    for c in a.case.comps:
        if len(c.blob) in (1, 16, 17):
            ctx.bin("payload_len_%d" % len(c.blob))
    # history: an earlier read of the same file (same key) with the MAC check switched OFF, e.g. by a viewer tool; the checked
    # reads of the damaged variants below must not inherit anything from it
    if len(a.binary) % 2 == 0:
        try:
            if a.kind == "bf3":
                ns.bf3file.Bf3File.read_file(io.StringIO(a.text), False, a.key)
            else:
                ns.bec2file.Bec2File.read_file(io.StringIO(a.text), GB.read_encryptors(ns, a.specs), False)
            ctx.bin("unchecked_read_of_the_same_file_first")
        except Exception as e:
            raise AssertionError("harness: authentic file not readable with the MAC check off: " + repr(e))
    # the authentic file itself must read back (otherwise nothing below means anything)
    if verdict(ns, ctx, a, "none", a.text, {}, changed=False) != "same":
        raise AssertionError("harness: authentic file not read back: " + a.kind)
    comments = a.case.comments
    n = len(a.binary)
    # ---- every byte position x replacement class -----------------------------------
    auth_end = 0
    if a.kind == "bec2":
        auth_end = [r for r in a.regs if r[2] == "auth_end"][0][1]
    for pos in range(n):
        reg = region_of(a.regs, pos)
        if a.has_ecc and pos >= auth_end and pos % 7:
            continue  # ECC files: full sweep of the header, every 7th byte of the body
        if a.long_payload and reg == "payload" and pos % 29 and not (n - pos <= 40):
            continue  # long payload: every 13th byte plus the tail
        old = a.binary[pos]
        for name, bit in REPL:
            if bit is not None:
                new = old ^ (1 << bit)
            elif name == "set00":
                new = 0
            elif name == "setFF":
                new = 0xFF
            else:
                new = (old + 1) & 0xFF
            if new == old:
                continue
            if a.has_ecc and name not in ("flip0", "flip7", "set00", "plus1"):
                continue
            dmg = a.binary[:pos] + bytes((new,)) + a.binary[pos + 1 :]
            ctx.bin("flip_in:" + reg)
            verdict(ns, ctx, a, "byte_replaced:" + reg, L.text_of(comments, dmg), {"pos": pos, "region": reg, "class": name})
    # ---- every proper prefix of the binary ---------------------------------------------
    sig = len(L.BF3_SIG)
    body = sig if a.kind == "bf3" else auth_end
    last_payload_tz = 0
    if a.case.comps:
        last = a.case.comps[-1].stored(a.key)
        last_payload_tz = len(last) - len(last.rstrip(b"\0"))
    for cut in range(n):
        if a.has_ecc and cut > 8 and cut < auth_end - 2 and cut % 5:
            continue
        if a.long_payload and 200 < cut < n - 60 and cut % 17:
            continue
        ctx.bin("binary_prefix")
        if body < cut < body + 4:
            ctx.bin("cut_inside_dirsize")
        if cut == sig and a.kind == "bf3":
            ctx.bin("cut_after_signature")
        if last_payload_tz and n - last_payload_tz <= cut < n:
            ctx.bin("cut_drops_only_trailing_zeros_of_last_payload")
        verdict(ns, ctx, a, "binary_prefix", L.text_of(comments, a.binary[:cut]), {"cut": cut, "of": n})
    # ---- every proper prefix of the text (character granularity) ----------------------------
    hex_start = a.text.index("\n\n") + 2 if comments else 1
    for cut in range(len(a.text)):
        if a.has_ecc and cut % 9:
            continue
        if a.long_payload and 400 < cut < len(a.text) - 120 and cut % 29:
            continue
        ctx.bin("text_prefix")
        if cut < hex_start:
            ctx.bin("cut_inside_comments")
        else:
            col = (cut - hex_start) % 81
            if col % 2 == 1 and col < 80:
                ctx.bin("cut_inside_hex_pair")
        if cut == len(a.text) - 1:
            ctx.bin("cut_removes_only_final_newline")
        verdict(ns, ctx, a, "text_prefix", a.text[:cut], {"cut": cut, "of": len(a.text)})
    # ---- appended suffixes ---------------------------------------------------------------------
    for s in BIN_SUFFIXES:
        ctx.bin("binary_suffix")
        verdict(ns, ctx, a, "binary_suffix", L.text_of(comments, a.binary + s), {"suffix": s})
    for s in TXT_SUFFIXES:
        ctx.bin("text_suffix")
        verdict(ns, ctx, a, "text_suffix", a.text + s, {"suffix": s})
    # ---- every single-bit change of the session key ---------------------------------------------
    if a.kind == "bf3":
        for bit in range(128):
            k2 = bytearray(a.key)
            k2[bit // 8] ^= 1 << (bit % 8)
            ctx.bin("key_bit_flip_bf3")
            verdict(ns, ctx, a, "session_key_bit_changed", a.text, {"bit": bit}, key=bytes(k2))
            if bit % (8 if ctx.tier == "quick" else 1) == idx_of(a) % 8 or ctx.tier != "quick":
                # history: the file is first read with the RIGHT key, then (a) the same key buffer is changed in place and used again,
                # (b) the right key object is dropped and the wrong key is a new object, possibly at the same address
                kb = bytearray(a.key)
                try:
                    first = read(ns, a, a.text, kb)
                except TypeError as e:
                    ctx.exc(e)
                    ctx.note("session_key_in_a_bytearray_refused")
                else:
                    if G.diff_file(first, a.case):
                        ctx.violation("authentic_file_read_differs:key_given_as_bytearray", {"diff": G.diff_file(first, a.case)}, {"kind": a.kind, "case": a.case.to_json(), "key": a.key.hex()})
                    kb[bit // 8] ^= 1 << (bit % 8)
                    ctx.bin("key_buffer_changed_in_place_after_a_successful_read")
                    verdict(ns, ctx, a, "session_key_buffer_changed_in_place_after_a_read_with_the_right_key", a.text, {"bit": bit}, key=kb)
                k_ok = bytes(bytearray(a.key))
                read(ns, a, a.text, k_ok)
                adr = id(k_ok)
                del k_ok
                k_bad = bytes(k2)
                if id(k_bad) == adr:
                    ctx.bin("wrong_key_object_at_the_address_of_the_dropped_right_key")
                verdict(ns, ctx, a, "session_key_bit_changed_after_a_read_with_the_right_key", a.text, {"bit": bit, "same_address": id(k_bad) == adr}, key=k_bad)
    else:
        # (a) the decryptor holds a key that differs in one bit
        for bi, s in enumerate(a.specs):
            for bit in range(128 if s["kind"] != "ecc" else 8):
                s2 = dict(s)
                if s["kind"] == "cust":
                    k2 = bytearray(s["key"])
                    k2[bit // 8] ^= 1 << (bit % 8)
                    s2["key"] = bytes(k2)
                elif s["kind"] == "update":
                    if bit >= 64:
                        continue
                    c2 = bytearray(s["code"])
                    c2[bit // 8] ^= 1 << (bit % 8)
                    s2["code"] = bytes(c2)
                else:
                    s2["priv"] = (s["priv"] ^ (1 << (bit * 31 % 250))) % (ecies_n() - 1) + 1
                    if s2["priv"] == s["priv"]:
                        s2["priv"] = s["priv"] % (ecies_n() - 2) + 1
                specs2 = list(a.specs)
                specs2[bi] = s2
                ctx.bin("key_bit_flip_bec2_decryptor")
                verdict(ns, ctx, a, "decryptor_key_bit_changed:" + s["kind"], a.text, {"bit": bit, "block": bi}, encs=GB.read_encryptors(ns, specs2))
        # (b) one block re-wrapped around a session key that differs in one bit
        blocks, pos = L.parse_bec2_header(a.binary)
        for bi, s in enumerate(a.specs):
            if s["kind"] == "ecc":
                continue
            for bit in range(128):
                k2 = bytearray(a.key)
                k2[bit // 8] ^= 1 << (bit % 8)
                if s["kind"] == "cust":
                    inner = (s["ck"] if s["ck"] is not None else bytes(10)) + bytes(k2)
                    val = container.wrap(s["key"], inner)
                else:
                    val = container.wrap(container.security_code_key(s["code"]), bytes(k2) + bytes((s["version"],)))
                nb = list(blocks)
                nb[bi] = (nb[bi][0], val)
                hdr = L.BEC2_SIG + b"".join(bytes((t, len(v))) + v for t, v in nb) + b"\x00\x00"
                assert len(hdr) == pos
                ctx.bin("key_bit_flip_bec2_rewrapped")
                verdict(ns, ctx, a, "session_key_bit_changed_inside_block:" + s["kind"], L.text_of(comments, hdr + a.binary[pos:]), {"bit": bit, "block": bi})


def run_bigpayload(ns, ctx, spec):
    """authentic BF3 files with a payload of 32 KiB and more (a size at which a reader might start to work in chunks, in the background or
    on a sample): every sampled single-byte change inside that payload must be noticed like anywhere else"""
    rng = ctx.rng
    for ln in spec["lens"]:
        a = Authentic()
        a.long_payload = True
        a.duplicate_payload = False
        a.has_ecc = False
        a.kind = "bf3"
        a.specs = None
        a.key = G.gen_key(rng)
        big = rng.randbytes(ln)
        comps = [MComp([(1, b"\x01")], b"first small one", None, False), MComp([(1, b"\x02")], big, None, False), MComp([(0xC3, b"\x03"), (0xC2, b"\x02")], b"secret tail", 11, True)]
        a.case = G.Case([("FirmwareId", "1100")], comps)
        a.binary = L.BF3_SIG + G.build_real(ns, a.case).to_binary(len(L.BF3_SIG), a.key)
        a.text = L.text_of(a.case.comments, a.binary)
        a.regs = field_map(a.binary, a.kind)
        start = a.binary.index(big[:24])
        ctx.bin("payload_of_32k_or_more")
        ctx.ev()
        if verdict(ns, ctx, a, "unchanged", a.text, {}, changed=False) != "same":
            ctx.violation("authentic_file_rejected", {"payload_len": ln}, {"kind": "bigpayload", "lens": [ln]})
            continue
        positions = sorted({0, 1, 15, 16, 17, ln // 2, ln // 2 + 1, 0x4000, 0x7FFF, 0x8000 % ln, ln - 17, ln - 16, ln - 2, ln - 1} | {rng.randrange(ln) for _ in range(spec["samples"])})
        for off in positions:
            if not 0 <= off < ln:
                continue
            for name, fn in (("bit0", lambda b: b ^ 1), ("set00_or_ff", lambda b: 0 if b else 0xFF)):
                dmg = bytearray(a.binary)
                dmg[start + off] = fn(dmg[start + off])
                verdict(ns, ctx, a, "byte_replaced:payload_of_32k_or_more", L.text_of(a.case.comments, bytes(dmg)), {"payload_len": ln, "offset_in_payload": off, "how": name}, replay_rec={"kind": "bigpayload", "lens": [ln]})


def run_shard(spec, ctx):
    ns = load()
    rng = ctx.rng
    if spec.get("kind") == "bigpayload":
        run_bigpayload(ns, ctx, spec)
        return
    if spec.get("optimized"):
        import sys

        if sys.flags.optimize < 1:
            raise RuntimeError("harness: shard meant to run under -O does not")
        ctx.bin("interpreter_in_optimized_mode")
    for j in range(spec["n"]):
        idx = spec["i"] + NSH * j
        a = make_authentic(ns, rng, idx)
        if j == 0:
            ctx.sample({"kind": a.kind, "binary_len": len(a.binary), "text_head": a.text[:160], "blocks": GB.spec_json(a.specs) if a.specs else None})
        run_authentic(ns, ctx, a, rng)


def replay(rec, ctx):
    ns = load()
    a = Authentic()
    a.kind = rec["kind"]
    a.case = G.Case.from_json(rec["case"])
    a.key = bytes.fromhex(rec["key"])
    a.specs = GB.spec_from_json(rec["specs"]) if rec.get("specs") else None
    a.has_ecc = False
    a.long_payload = a.duplicate_payload = False
    key = bytes.fromhex(rec["reader_key"]) if rec.get("reader_key") else None
    if rec.get("kind") == "bigpayload":
        run_bigpayload(ns, ctx, {"lens": rec["lens"], "samples": 6})
        return
    if rec.get("damaged_text") is not None:
        if key is not None and a.kind == "bf3":
            # the history variants: a read with the right key first, in the same buffer object
            kb = bytearray(a.key)
            try:
                read(ns, a, rec["damaged_text"], kb)
                kb[:] = key
                verdict(ns, ctx, a, "replay_key_buffer_changed_in_place", rec["damaged_text"], {}, key=kb)
            except Exception as e:
                ctx.exc(e)
        verdict(ns, ctx, a, "replay", rec["damaged_text"], {}, key=key)
