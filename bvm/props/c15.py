"""C15 - the authentication-block checksum is CRC-16/MCRF4XX for all inputs.

Oracle: bit-serial reference (bvm.refs.crc).  Workload: ALL 2^24 (start, byte)
single-step pairs (both tiers), all strings of length <= 2 from the default
start, random long strings with random split points (fold property), several
input container types.
"""
from ..load import load
from ..refs import crc as ref

ID = "C15"
LEVEL = "exploration"
RULE = (
    "single-step cases: every (start value s < 2^16, byte b) pair, enumerated completely "
    "(distinct by construction; non-trivial = (s^b)&0xFF != 0 so that the polynomial "
    "feedback is exercised); string cases: all byte strings of length 0..2 from the default "
    "start and seeded random strings (<= 4 KiB) with random split points and start values, long strings of 4095..262147 bytes (random / constant / periodic; repeated calls on the same object, in-place changes), "
    "distinct by digest of (data, start, split)"
)
ASSUMPTIONS = [
    "the reference is the textbook bit-serial reflected CRC with polynomial 0x8408, anchored "
    "to the catalogue check value 0x6F91 for '123456789'",
    "start values are 16-bit (the property's quantifier); wider/negative starts are not judged",
]
TIMEOUT = {"quick": 900, "thorough": 7200}
OPTIMIZED_SHARDS = ("long", "short")  # these shards also run under python -O
NSTEP = 16


def plan(tier, seed):
    jobs = [{"name": "step%02d" % i, "spec": {"kind": "step", "lo": i * 4096, "hi": (i + 1) * 4096}} for i in range(NSTEP)]
    jobs.append({"name": "short", "spec": {"kind": "short"}})
    jobs.append({"name": "long", "spec": {"kind": "long", "reps": 1 if tier == "quick" else 12}})
    for i in range(4 if tier == "quick" else 32):
        jobs.append({"name": "threads%02d" % i, "spec": {"kind": "threads", "threads": (2, 3, 4, 8)[i % 4], "len": (1, 3, 40, 300)[(i // 4) % 4]}})
    n = 20000 if tier == "quick" else 8000000
    k = 4 if tier == "quick" else 16
    for i in range(k):
        jobs.append({"name": "rand%02d" % i, "spec": {"kind": "rand", "n": n // k}})
    return jobs


def mandatory_bins(tier):
    return ["step_pairs", "len0", "len1", "len2", "default_start", "split", "type_bytes", "type_bytearray", "type_memoryview", "type_list", "type_iterator", "type_generator", "catalogue_check_value", "long_input", "first_calls_of_the_process_from_concurrent_threads", "same_mutable_object_changed_in_place_and_checksummed_again", "type_memoryview_reversed", "type_memoryview_strided", "checksum_computed_while_another_is_in_progress"]


def finish(agg, tier):
    return {"exhaustive": agg["bins"].get("step_pairs", 0) == 1 << 24, "exhaustive_scope": "single-step relation over all 2^16 start values x 256 byte values"}


def run_shard(spec, ctx):
    ns = load(plugin=False)
    f = ns.bec2file.crc8404B
    kind = spec["kind"]
    if kind == "step":
        step = ref.step
        bad = 0
        for s in range(spec["lo"], spec["hi"]):
            for b in range(256):
                got = f(bytes((b,)), s)
                exp = step(s, b)
                if got != exp or not (0 <= got < 65536):
                    bad += 1
                    ctx.violation(
                        "step_mismatch" if got != exp else "result_out_of_range",
                        {"start": s, "byte": b, "got": got, "expected": exp},
                        {"kind": "step1", "start": s, "byte": b},
                    )
        n = (spec["hi"] - spec["lo"]) * 256
        ctx.ev(n)
        ctx.bin("step_pairs", n)
        ctx.distinct_by_enumeration(n - (spec["hi"] - spec["lo"]))
        ctx.mon("crc8404B", n)
        if spec["lo"] == 0:
            ctx.sample({"kind": "step", "start": 0xFFFF, "byte": 0x31, "result": f(b"1", 0xFFFF)})
    elif kind == "short":
        # default start value observed through the default argument
        for data in [b""] + [bytes((a,)) for a in range(256)] + [bytes((a, b)) for a in range(256) for b in range(256)]:
            got = f(data)
            exp = ref.crc16(data, 0xFFFF)
            ctx.ev()
            ctx.mon("crc8404B")
            ctx.bin("len%d" % len(data))
            ctx.bin("default_start")
            ctx.distinct(data)
            if got != exp or not (0 <= got < 65536):
                ctx.violation("string_mismatch_default_start", {"data": data, "got": got, "expected": exp}, {"kind": "string", "data": data.hex(), "start": None})
        got = f(b"123456789")
        ctx.bin("catalogue_check_value")
        ctx.ev()
        if got != 0x6F91:
            ctx.violation("catalogue_check_value", {"got": got, "expected": 0x6F91}, {"kind": "string", "data": b"123456789".hex(), "start": None})
        ctx.sample({"kind": "string", "data": "123456789", "crc": got})
    elif kind == "threads":
        # the FIRST checksums of a process computed by several threads at once (each shard is a fresh interpreter): the
        # threads are made to interleave at every source line of bec2file.py (LINE events + a short sleep), so that any lazily
        # initialised shared state is built under contention; afterwards the function is re-checked sequentially
        import sys
        import threading
        import time
        import types

        mon = sys.monitoring
        TOOL = 5
        mon.use_tool_id(TOOL, "bvm-crc-yield")
        fname = ns.bec2file.__file__
        codes = [v.__code__ for v in vars(ns.bec2file).values() if isinstance(v, types.FunctionType) and v.__code__.co_filename == fname]
        # ... and the methods of every class of the module and of the checksum callable's own type, whatever kind of object it is
        from ..sched import yieldrun

        owners = [v for v in vars(ns.bec2file).values() if isinstance(v, type) and getattr(v, "__module__", None) == ns.bec2file.__name__]
        if not isinstance(f, types.FunctionType):
            owners.append(type(f))
        codes += [c for c in yieldrun.code_objects_of(*owners) if c.co_filename == fname and c not in codes]
        lines = [0]

        def on_line(code, line):
            lines[0] += 1
            if lines[0] < 20000:
                time.sleep(0.0002)

        mon.register_callback(TOOL, mon.events.LINE, on_line)
        for c in codes:
            mon.set_local_events(TOOL, c, mon.events.LINE)
        nthreads = spec["threads"]
        rng = ctx.rng
        datas = [rng.randbytes(spec["len"]) for _ in range(nthreads)]
        starts = [rng.randrange(65536) for _ in range(nthreads)]
        results = [None] * nthreads
        barrier = threading.Barrier(nthreads)

        def worker(i):
            try:
                barrier.wait(timeout=30)
                if nthreads in (3, 8):
                    time.sleep(0.003 * i)  # staggered starts: a late-comer is the thread that finds half-built state
                results[i] = ("ok", f(datas[i], starts[i]))
            except BaseException as e:  # noqa
                results[i] = ("exc", repr(e))

        ths = [threading.Thread(target=worker, args=(i,), daemon=True) for i in range(nthreads)]
        for t in ths:
            t.start()
        for t in ths:
            t.join(120)
        for c in codes:
            mon.set_local_events(TOOL, c, 0)
        mon.register_callback(TOOL, mon.events.LINE, None)
        mon.free_tool_id(TOOL)
        ctx.ev(nthreads)
        ctx.bin("first_calls_of_the_process_from_concurrent_threads")
        ctx.mon("crc8404B", nthreads)
        ctx.mon("line_yields_injected", lines[0])
        ctx.distinct("threads", nthreads, spec["len"], datas, starts)
        rp = {"kind": "threads", "threads": nthreads, "len": spec["len"]}
        if any(t.is_alive() for t in ths):
            ctx.note("thread_still_running_after_120s(inconclusive)")
        for i, r in enumerate(results):
            if r is None:
                continue
            exp = ref.crc16(datas[i], starts[i])
            if r[0] == "exc":
                ctx.violation("concurrent_first_call_raises", {"exc": r[1], "threads": nthreads}, rp)
            elif r[1] != exp:
                ctx.violation("string_mismatch:concurrent_first_calls", {"got": r[1], "expected": exp, "threads": nthreads}, rp)
        bad = [b for b in range(256) if f(bytes((b,)), 0xFFFF) != ref.step(0xFFFF, b)]
        if bad or f(b"123456789") != 0x6F91:
            ctx.violation("string_mismatch:after_concurrent_first_calls", {"wrong_single_byte_values": len(bad)}, rp)
        ctx.sample({"kind": "threads", "threads": nthreads, "line_yields": lines[0]})
    elif kind == "long":
        # long inputs around sizes at which a chunked / word-wise / table implementation could change behaviour, the same
        # object checksummed repeatedly (memoised results), and equal content in different objects
        rng = ctx.rng
        for rep in range(spec["reps"]):
            for ln in (4095, 4096, 4097, 8191, 8192, 8193, 16384, 65535, 65536, 65537, 100003, 262147):
                for pat in ("random", "zero", "ff", "period3"):
                    data = {"random": rng.randbytes(ln), "zero": bytes(ln), "ff": b"\xff" * ln, "period3": (b"\x01\x80\xfe" * (ln // 3 + 1))[:ln]}[pat]
                    start = rng.choice((0xFFFF, 0, rng.randrange(65536)))
                    exp = ref.crc16(data, start)
                    ctx.ev()
                    ctx.bin("long_input")
                    ctx.distinct("long", ln, pat, start, data[:64])
                    ctx.mon("crc8404B", 4)
                    rp = {"kind": "long", "len": ln, "pattern": pat, "start": start}
                    obj = bytearray(data) if ln % 2 else data
                    g1 = f(obj, start)
                    g2 = f(obj, start)
                    g3 = f(bytes(data), (start + 1) % 65536)
                    if g1 != exp or g2 != exp:
                        ctx.violation("string_mismatch:long_input", {"len": ln, "pattern": pat, "start": start, "got": [g1, g2], "expected": exp}, rp)
                    if g3 != ref.crc16(data, (start + 1) % 65536):
                        ctx.violation("string_mismatch:same_data_other_start", {"len": ln, "pattern": pat}, rp)
                    if isinstance(obj, bytearray):
                        # the same (mutable) object with one byte changed: a result remembered per object would be stale
                        obj[ln // 2] ^= 0x40
                        if f(obj, start) != ref.crc16(bytes(obj), start):
                            ctx.violation("string_mismatch:same_object_after_in_place_change", {"len": ln, "pattern": pat}, rp)
        ctx.sample({"kind": "long", "lengths": "4095..262147"})
    elif kind == "rand":
        rng = ctx.rng
        for i in range(spec["n"]):
            ln = rng.choice((0, 1, 2, 3, 15, 16, 17, 255, 256)) if rng.random() < 0.3 else rng.randrange(0, 4096 if rng.random() < 0.1 else 200)
            data = rng.randbytes(ln)
            start = rng.choice((0, 0xFFFF, 1, 0x8408, 0x8000)) if rng.random() < 0.3 else rng.randrange(65536)
            cut = rng.randrange(ln + 1)
            exp = ref.crc16(data, start)
            t = i % 4
            if t == 0:
                arg, tn = data, "bytes"
            elif t == 1:
                arg, tn = bytearray(data), "bytearray"
            elif t == 2:
                arg, tn = memoryview(data), "memoryview"
            else:
                arg, tn = list(data), "list"
            got = f(arg, start)
            if t in (1, 3) and ln:
                # the SAME mutable object changed in place and checksummed again at once (same start value)
                arg[rng.randrange(ln)] ^= 1 << rng.randrange(8)
                again = f(arg, start)
                ctx.bin("same_mutable_object_changed_in_place_and_checksummed_again")
                if again != ref.crc16(bytes(arg), start):
                    ctx.violation("string_mismatch:same_object_after_in_place_change", {"len": ln, "type": tn, "start": start}, {"kind": "string", "data": data.hex(), "start": start, "type": tn})
            if i % 16 == 2 and ln >= 2:
                # non-contiguous buffer views (reversed, strided)
                for vname, view, content in (("reversed", memoryview(data)[::-1], data[::-1]), ("strided", memoryview(data)[::2], data[::2])):
                    ctx.bin("type_memoryview_" + vname)
                    try:
                        gv = f(view, start)
                    except Exception as e:
                        ctx.violation("checksum_of_non_contiguous_view_raises", {"view": vname, "exc": repr(e)[:120]}, {"kind": "string", "data": content.hex(), "start": start, "type": "memoryview_" + vname})
                        continue
                    if gv != ref.crc16(content, start):
                        ctx.violation("string_mismatch", {"len": len(content), "start": start, "type": "memoryview_" + vname}, {"kind": "string", "data": content.hex(), "start": start})
            mid = f(data[:cut], start)
            got2 = f(data[cut:], mid)
            ctx.ev()
            ctx.mon("crc8404B", 3)
            ctx.bin("type_" + tn)
            ctx.bin("split")
            ctx.distinct(data, start, cut)
            if i < 2:
                ctx.sample({"kind": "rand", "data": data[:32], "len": ln, "start": start, "cut": cut, "crc": got})
            rp = {"kind": "string", "data": data.hex(), "start": start, "cut": cut, "type": tn}
            if i % 8 == 5:
                # one-shot iterables (iterator, generator, chain): the correct value or an exception, never a silently wrong value
                import itertools

                for itname, mkit in (("iterator", lambda: iter(data)), ("generator", lambda: (b for b in data)), ("chain", lambda: itertools.chain(data[:cut], data[cut:]))):
                    ctx.bin("type_" + itname)
                    ctx.mon("crc8404B")
                    try:
                        g = f(mkit(), start)
                    except (TypeError, ValueError):
                        ctx.note("one_shot_iterable_refused")
                        continue
                    if g != exp:
                        ctx.violation("wrong_value_for_one_shot_iterable", {"type": itname, "len": ln, "start": start, "got": g, "expected": exp}, rp)
                if ln >= 2:
                    # re-entrancy: the bytes come from a generator that computes ANOTHER checksum while it is being consumed (a record
                    # stream whose records carry their own check value): two computations overlap in one thread
                    inner = []
                    other = data[cut:] + b"\x5a"

                    def records():
                        for j, b in enumerate(data):
                            if j == cut % ln or j == ln - 1:
                                inner.append(f(other, start ^ 0x1234))
                            yield b

                    ctx.bin("checksum_computed_while_another_is_in_progress")
                    ctx.mon("crc8404B", 3)
                    try:
                        g = f(records(), start)
                    except (TypeError, ValueError):
                        ctx.note("one_shot_iterable_refused")
                    else:
                        if g != exp or any(v != ref.crc16(other, start ^ 0x1234) for v in inner):
                            ctx.violation("wrong_value_when_computations_overlap_in_one_thread", {"len": ln, "outer_got": g, "outer_expected": exp, "inner_got": inner, "inner_expected": ref.crc16(other, start ^ 0x1234)}, rp)
            if got != exp:
                ctx.violation("string_mismatch", {"len": ln, "start": start, "got": got, "expected": exp, "type": tn}, rp)
            if not (0 <= got < 65536) or not (0 <= mid < 65536):
                ctx.violation("result_out_of_range", {"got": got, "mid": mid}, rp)
            if got2 != exp:
                ctx.violation("not_a_fold_over_split", {"len": ln, "cut": cut, "start": start, "got": got2, "expected": exp}, rp)


def replay(rec, ctx):
    ns = load(plugin=False)
    f = ns.bec2file.crc8404B
    if rec["kind"] == "step1":
        got = f(bytes((rec["byte"],)), rec["start"])
        exp = ref.step(rec["start"], rec["byte"])
        ctx.ev()
        if got != exp:
            ctx.violation("step_mismatch", {"got": got, "expected": exp}, rec)
    elif rec["kind"] == "long":
        run_shard({"kind": "long", "reps": 1}, ctx)
    elif rec["kind"] == "threads":
        run_shard({"kind": "threads", "threads": rec["threads"], "len": rec["len"]}, ctx)
    else:
        data = bytes.fromhex(rec["data"])
        start = rec.get("start")
        got = f(data) if start is None else f(data, start)
        exp = ref.crc16(data, 0xFFFF if start is None else start)
        ctx.ev()
        if got != exp:
            ctx.violation("string_mismatch", {"got": got, "expected": exp}, rec)
        cut = rec.get("cut")
        if cut is not None and start is not None:
            if f(data[cut:], f(data[:cut], start)) != exp:
                ctx.violation("not_a_fold_over_split", {"expected": exp}, rec)
