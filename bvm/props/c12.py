"""C12 - configuration identifiers match the config and their text form round-trips.

Oracle: bvm.refs.configid (independent formatter / parser / derivation).
"""
import itertools

from ..ctx import fmt_exc
from ..load import load
from ..refs import configid as model

ID = "C12"
LEVEL = "exploration"
RULE = (
    "identifier cases: complete single-field sweeps (customer 0..99999 without 9999, project 0..9999, device 0..9999, version 0..99) "
    "with the other fields at fixed values, crossed with a list of names (absent, plain, with spaces, digits-and-dashes, containing "
    "'(version NN)', starting like a numeric id, non-ASCII); name-only identifiers with the same names; each is printed, re-parsed, "
    "compared, and its canonical text is parsed and printed again. configuration cases: every subset of the 0x0620 naming values with "
    "byte widths 1..8. unparsable texts: mutations of canonical ones that match neither documented form. distinct = digest of the case; "
    "non-trivial = every case (all involve formatting or parsing)"
)
ASSUMPTIONS = [
    "canonical text = 'CCCCC-PPPP-DDDD-VV[ name]' / 'name (version VV)' (the two documented forms, unknown printed as 9999)",
    "names are non-empty, single-line, without surrounding white space (stated domain)",
    "text with trailing garbage after a well-formed identifier is not judged as 'unparsable' (ambiguous); only text that matches neither form anywhere is",
    "for device settings the project field is not judged (no project value exists among the device-settings naming values)",
]
TIMEOUT = {"quick": 900, "thorough": 4 * 3600}
OPTIMIZED_SHARDS = ("sweep02",)  # these shards also run under python -O
NSH = 16

NAMES_Q = [None, "x", "My Project 1", "(version 07)", "a (version 07)", "12-34-56", "Zutritt Tür", "Reader{0}", "a{}b", "x}", "{version}", "{{site}}", "100%s", "%(name)s %d", "back\\slash \\1", "ends with blank ", "ends with tab\t", "ends with nbsp\u00a0", " ", " leading blank", "two  blanks  "]
NAMES_T = NAMES_Q + ["name with  two spaces", "v (version 99) (version 00)", "12345-1234-1234-1", "1234-1234-1234-12 x", "ü", "a:b#c", "(version 7)", "x (version 123)", "12345-1234-1234-123"]
AMBIGUOUS_NAMES = ["12345-1234-1234-12", "12345-1234-1234-12 foo", "00000-0000-0000-00 (version 07)", "12345-1234-1234-12x"]


def plan(tier, seed):
    jobs = []
    for i in range(NSH):
        jobs.append({"name": "sweep%02d" % i, "spec": {"kind": "sweep", "res": i}})
    jobs.append({"name": "config", "spec": {"kind": "config"}})
    jobs.append({"name": "unparsable", "spec": {"kind": "unparsable", "n": 20000 if tier == "quick" else 2000000}})
    jobs.append({"name": "ambiguous", "spec": {"kind": "ambiguous"}})
    # the first prints / parses / derivations of a process made by several threads at once (fresh process per shard)
    for i in range(3 if tier == "quick" else 24):
        jobs.append({"name": "threads%02d" % i, "spec": {"kind": "threads", "i": i, "rounds": 3 if tier == "quick" else 12}})
    return jobs


def mandatory_bins(tier):
    return ["sweep_customer", "sweep_project", "sweep_device", "sweep_version", "project_9999", "device_9999", "device_0", "name_absent", "name_only", "name_with_version_suffix",
            "prj_settings_subsets", "dev_settings_subsets", "fallback_name_only", "missing_error", "byte_width_1", "byte_width_2", "byte_width_3", "byte_width_4", "byte_width_8", "unparsable", "ambiguous_name", "parse_again_after_caller_edited_the_first_result", "naming_values_given_as_bytearray", "identifiers_differing_in_one_field_compare_unequal", "identifiers_printed_parsed_and_derived_by_concurrent_threads"]


def fields(obj):
    return (obj.customer, obj.project, obj.device, obj.version, obj.name)


def same_id(t, exp):
    e = (model.norm(exp[0]), model.norm(exp[1]), model.norm(exp[2]), exp[3], exp[4])
    g = (model.norm(t[0]), model.norm(t[1]), model.norm(t[2]), t[3], t[4])
    return e == g


def check_id(ns, ctx, c, p, d, v, name):
    CI = ns.configid.ConfigId
    rp = {"kind": "id", "id": [c, p, d, v, name]}
    ctx.ev()
    ctx.distinct(c, p, d, v, name)
    ambiguous = c is None and name is not None and model.looks_numeric_prefix(name)
    try:
        obj = CI(c, p, d, v, name)
        text = str(obj)
        ctx.mon("str")
    except Exception as e:
        which = "device_unknown" if model.norm(d) is None and c is not None else "other"
        ctx.violation("printing_identifier_raises:" + which, {"id": rp["id"], "exc": fmt_exc(e)}, rp)
        return
    canon = model.fmt(c, p, d, v, name)
    try:
        back = CI.create_from_str(text)
        ctx.mon("create_from_str")
    except Exception as e:
        ctx.violation("parsing_printed_identifier_raises", {"id": rp["id"], "text": text, "exc": fmt_exc(e)}, rp)
        return
    if not (back == obj) or (back != obj) or not same_id(fields(back), (c, p, d, v, name)):
        if ambiguous:
            ctx.violation("name_only_id_whose_name_starts_like_a_numeric_id_reparses_as_numeric" + (":name_continues_without_space" if len(name) > 18 and name[18] != " " else ""), {"id": rp["id"], "text": text, "reparsed": fields(back)}, rp)
        else:
            ctx.violation("print_then_parse_gives_other_identifier", {"id": rp["id"], "text": text, "reparsed": fields(back)}, rp)
        return
    # equality must also tell identifiers APART: change one field at a time
    if (v + (c or 0)) % 7 == 0:
        ctx.bin("identifiers_differing_in_one_field_compare_unequal")
        variants = [(c2, p, d, v, name) for c2 in ([(c + 1) % 100000 if (c + 1) % 100000 != 9999 else 10000] if c is not None else [])]
        if c is not None:
            variants += [(c, (p or 0) + 1 if (p or 0) + 1 not in (9999, 10000) else 1, d, v, name), (c, p, (d or 0) + 1 if (d or 0) + 1 not in (9999, 10000) else 1, v, name)]
        variants += [(c, p, d, (v + 1) % 100, name), (c, p, d, v, (name or "") + "x")]
        for var in variants:
            try:
                o2 = CI(*var)
                if (o2 == obj) or not (o2 != obj) or (obj == o2):
                    ctx.violation("identifiers_differing_in_one_field_compare_equal", {"a": rp["id"], "b": list(var)}, rp)
                    break
            except Exception as e:
                ctx.violation("printing_identifier_raises:other", {"id": list(var), "exc": fmt_exc(e)}, rp)
                break
    # canonical text -> parse -> print gives the same text
    try:
        again = str(CI.create_from_str(canon))
        ctx.mon("create_from_str")
        ctx.mon("str")
    except Exception as e:
        ctx.violation("canonical_text_not_parsed", {"text": canon, "exc": fmt_exc(e)}, rp)
        return
    if again != canon:
        ctx.violation("parse_then_print_changes_canonical_text", {"text": canon, "printed": again}, rp)
        return
    # history: the caller edits the identifier it got (ordinary attribute assignment, e.g. bumping the version) and the
    # same text is parsed again - the second result must not know about the edit
    if (c or 0) % 3 == 0 and not ambiguous:
        try:
            first = CI.create_from_str(canon)
            first.version = (first.version + 1) % 100
            first.name = "edited by the caller"
            second = CI.create_from_str(canon)
            ctx.bin("parse_again_after_caller_edited_the_first_result")
            if str(second) != canon or not same_id(fields(second), (c, p, d, v, name)):
                ctx.violation("second_parse_of_a_text_sees_edits_made_to_the_first_result", {"text": canon, "second": fields(second)}, rp)
        except Exception as e:
            ctx.violation("canonical_text_not_parsed", {"text": canon, "exc": fmt_exc(e)}, rp)


def check_config(ns, ctx, conf, which):
    CI = ns.configid.ConfigId
    E = ns.error
    rp = {"kind": "config", "which": which, "conf": [[k, v, c.hex()] for (k, v), c in conf.items()]}
    ctx.ev()
    ctx.distinct(which, sorted(conf.items()))
    f_impl = CI.create_from_prj_settings if which == "prj" else CI.create_from_dev_settings
    f_model = model.from_prj if which == "prj" else model.from_dev
    missing_cls = E.MissingProjectSettingsNameError if which == "prj" else E.MissingDeviceSettingsNameError
    try:
        exp = f_model(conf)
    except model.Missing:
        exp = None
    arg = dict(conf)
    if len(conf) % 3 == 1 and conf:
        # the naming values handed over as bytearray (what a caller gets from a buffer) instead of bytes
        arg = {k: bytearray(v) for k, v in conf.items()}
        ctx.bin("naming_values_given_as_bytearray")
    try:
        got = f_impl(arg)
        ctx.mon("create_from_%s_settings" % which)
    except missing_cls as e:
        ctx.mon("create_from_%s_settings" % which)
        ctx.bin("missing_error")
        if exp is not None:
            ctx.violation("missing_error_although_naming_values_present:" + which, {"expected": exp}, rp)
        return
    except Exception as e:
        ctx.violation("derivation_raises_undocumented_error:" + which, {"exc": fmt_exc(e), "expected": exp}, rp)
        return
    if exp is None:
        ctx.violation("missing_name_or_version_not_reported:" + which, {"got": fields(got)}, rp)
        return
    g = fields(got)
    if exp[0] is None:
        ctx.bin("fallback_name_only")
    if which == "dev":
        g = (g[0], exp[1], g[2], g[3], g[4])
    if not same_id(g, exp):
        ctx.violation("identifier_does_not_denote_the_naming_values:" + which, {"got": fields(got), "expected": exp}, rp)


def enc_int(v, width):
    return v.to_bytes(width, "big")


def run_threads(ns, ctx, spec):
    from ..sched import yieldrun

    CI = ns.configid.ConfigId
    rng = ctx.rng
    codes = yieldrun.code_objects_of_module(ns.configid)
    names = [n for n in NAMES_Q if n and n.strip() == n and not model.looks_numeric_prefix(n)]
    total = 0
    for rnd in range(spec["rounds"]):
        nthreads = (2, 3, 4, 8)[(rnd + spec["i"]) % 4]
        ids = []
        for t in range(nthreads):
            if (t + rnd) % 3 == 2:
                ids.append((None, None, None, rng.randrange(100), rng.choice(names)))
            else:
                ids.append((rng.choice([x for x in (0, 1, 42, 9998, 10000, 99999, rng.randrange(100000)) if x != 9999]), rng.randrange(9999), rng.randrange(1, 9999), rng.randrange(100), rng.choice([None] + names)))

        def body(t):
            c, p, d, v, name = ids[t]

            def run():
                obj = CI(c, p, d, v, name)
                text = str(obj)
                back = CI.create_from_str(text)
                K = model.NAMING_KEY
                conf = {(K, model.V_PRJVER): enc_int(v, 1)}
                if c is not None:
                    conf.update({(K, model.V_CUSTOMER): enc_int(c, 4), (K, model.V_PROJECT): enc_int(p, 2), (K, model.V_DEVICE): enc_int(d, 2)})
                if name is not None:
                    conf[(K, model.V_PRJNAME)] = name.encode()
                derived = CI.create_from_prj_settings(conf)
                return text, fields(back), fields(derived), back == obj, model.from_prj(conf)
            return run

        res, y = yieldrun.run_concurrently([body(t) for t in range(nthreads)], codes, sleep=0.0002, max_yields=8000, stagger=(0.0, 0.001, 0.005)[rnd % 3])
        total += y
        ctx.bin("identifiers_printed_parsed_and_derived_by_concurrent_threads")
        for t, r in enumerate(res):
            c, p, d, v, name = ids[t]
            rp = {"kind": "id", "id": [c, p, d, v, name]}
            ctx.ev()
            ctx.distinct("threads", ids[t])
            if r is None:
                ctx.note("thread_still_running_after_timeout(inconclusive)")
                continue
            ctx.mon("str")
            ctx.mon("create_from_str")
            if r[0] == "exc":
                ctx.violation("identifier_operation_raises_under_concurrent_use", {"id": rp["id"], "exc": r[1][:200], "threads": nthreads}, rp)
                continue
            text, back, derived, eq, exp_derived = r[1]
            if text != model.fmt(c, p, d, v, name):
                ctx.violation("printed_text_differs_under_concurrent_use", {"id": rp["id"], "text": text, "expected": model.fmt(c, p, d, v, name)}, rp)
            elif not same_id(back, ids[t]) or not eq:
                ctx.violation("print_then_parse_gives_other_identifier:concurrent_threads", {"id": rp["id"], "reparsed": back}, rp)
            elif not same_id(derived, exp_derived):
                ctx.violation("identifier_does_not_denote_the_naming_values:concurrent_threads", {"id": rp["id"], "derived": derived, "expected": exp_derived}, rp)
    ctx.mon("line_yields_injected", total)


def run_shard(spec, ctx):
    ns = load(plugin=False)
    rng = ctx.rng
    kind = spec["kind"]
    names = NAMES_Q if ctx.tier == "quick" else NAMES_T
    if kind == "threads":
        run_threads(ns, ctx, spec)
        return
    if kind == "sweep":
        res = spec["res"]
        fixed = [(12345, 1, 2, 3), (0, 0, 0, 0), (99999, 9998, 9998, 99)]
        cnt = 0
        for c in range(res, 100000, NSH):
            if c == 9999:
                continue
            nm = names[c % len(names)]
            for (_, p, d, v) in (fixed if c % 97 == 0 else fixed[:1]):
                check_id(ns, ctx, c, p, d, v, nm)
            ctx.bin("sweep_customer")
            if nm is None:
                ctx.bin("name_absent")
        for p in range(res, 10000, NSH):
            for nm in (names[p % len(names)], None):
                check_id(ns, ctx, 12345, p, 7, 1, nm)
                check_id(ns, ctx, 0, p, 0, 99, nm)
            ctx.bin("sweep_project")
            if p == 9999:
                ctx.bin("project_9999")
        for d in range(res, 10000, NSH):
            for nm in (names[d % len(names)], None):
                check_id(ns, ctx, 12345, 1, d, 1, nm)
                check_id(ns, ctx, 99999, 9999, d, 0, nm)
            ctx.bin("sweep_device")
            if d == 9999:
                ctx.bin("device_9999")
            if d == 0:
                ctx.bin("device_0")
        if res == 15:  # 9999 % 16 == 15: make sure the bins above are owned by one shard
            pass
        for v in range(100):
            if v % NSH != res:
                continue
            for nm in names:
                check_id(ns, ctx, 12345, 1, 2, v, nm)
                if nm is not None:
                    check_id(ns, ctx, None, None, None, v, nm)
                    ctx.bin("name_only")
                    if "(version" in nm:
                        ctx.bin("name_with_version_suffix")
            ctx.bin("sweep_version")
        # random full-range ids
        for _ in range(2000 if ctx.tier == "quick" else 400000):
            c = rng.randrange(100000)
            if c == 9999:
                continue
            check_id(ns, ctx, c, rng.randrange(10000), rng.choice((0, 9999, rng.randrange(10000))), rng.randrange(100), rng.choice(names))
        if res == 0:
            ctx.sample({"id": [12345, 1, 2, 3, "My Project 1"], "text": model.fmt(12345, 1, 2, 3, "My Project 1")})
            ctx.sample({"id": [None, None, None, 7, "a (version 07)"], "text": model.fmt(None, None, None, 7, "a (version 07)")})
        return
    if kind == "ambiguous":
        for nm in AMBIGUOUS_NAMES:
            for v in (0, 7, 99):
                ctx.bin("ambiguous_name")
                check_id(ns, ctx, None, None, None, v, nm)
                check_id(ns, ctx, 12345, 1, 2, v, nm)  # as the name of a numeric id it is unambiguous
        return
    if kind == "config":
        K = model.NAMING_KEY
        widths = (1, 2, 3, 4, 8)
        valsets = [(12345, 17, 3, 9, 5), (0, 0, 0, 0, 0), (255, 255, 255, 99, 255), (99999, 9999, 9999, 1, 9998), (70000, 1, 9999, 2, 9999)]
        prj_ids = (model.V_CUSTOMER, model.V_DEVICE, model.V_PROJECT, model.V_PRJNAME, model.V_PRJVER)
        dev_ids = (model.V_CUSTOMER, model.V_DEVICE, model.V_DEVNAME, model.V_DEVVER)
        nm_list = ["cfg", "Projekt Süd", "a (version 07)", "12345-1234-1234-12 x"]
        for which, ids in (("prj", prj_ids), ("dev", dev_ids)):
            for r in range(len(ids) + 1):
                for subset in itertools.combinations(ids, r):
                    ctx.bin("%s_settings_subsets" % which)
                    for w in widths:
                        for (cu, de, pr, ve, _), nm in zip(valsets, itertools.cycle(nm_list)):
                            conf = {}
                            bad = False
                            for vid in subset:
                                if vid == model.V_CUSTOMER:
                                    val = cu
                                elif vid == model.V_DEVICE:
                                    val = de
                                elif vid == model.V_PROJECT:
                                    val = pr
                                elif vid in (model.V_PRJVER, model.V_DEVVER):
                                    val = ve
                                else:
                                    conf[(K, vid)] = nm.encode("utf-8")
                                    continue
                                if val >= 1 << (8 * w):
                                    bad = True
                                    break
                                conf[(K, vid)] = enc_int(val, w)
                            if bad:
                                continue
                            ctx.bin("byte_width_%d" % w)
                            # unrelated entries must not matter
                            conf[(0x0202, 0x82)] = b"\x01" * 8
                            conf[(K, 0x20)] = b"\x01"
                            check_config(ns, ctx, conf, which)
        ctx.sample({"which": "prj", "conf": {"0620/01": "3039", "0620/05": "0011", "0620/07": "09", "0620/06": "cfg"}})
        return
    if kind == "unparsable":
        CI = ns.configid.ConfigId
        FE = ns.error.ConfigIdFormatError
        base = [model.fmt(12345, 1, 2, 3, "My Project 1"), model.fmt(12345, 1, 2, 3, None), model.fmt(None, None, None, 7, "name"), model.fmt(0, 9999, 0, 0, "x")]
        fixed = ["", " ", "abc", "1234-1234-1234-12", "12345-1234-1234", "12345-1234-1234-1", "(version 07)", "x(version 07)", "x (version 7)", "x (version 07", "x (versio 07)", "12345_1234_1234_12", "12345-1234-1234-ab", "１２３４５-1234-1234-12", "x (Version 07)", "x  (version a7)"]
        alphabet = "0123456789-() versionxyzä"
        for i in range(spec["n"]):
            if i < len(fixed):
                t = fixed[i]
            else:
                t = list(rng.choice(base))
                for _ in range(rng.randrange(1, 4)):
                    op = rng.randrange(4)
                    if not t:
                        break
                    pos = rng.randrange(len(t))
                    if op == 0:
                        del t[pos]
                    elif op == 1:
                        t[pos] = rng.choice(alphabet)
                    elif op == 2:
                        t.insert(pos, rng.choice(alphabet))
                    else:
                        t = t[:pos]
                t = "".join(t)
            if not model.surely_unparsable(t):
                ctx.note("mutation_still_parsable_or_ambiguous")
                continue
            ctx.ev()
            ctx.bin("unparsable")
            ctx.distinct("unp", t)
            try:
                r = CI.create_from_str(t)
                ctx.mon("create_from_str")
                ctx.violation("unparsable_text_accepted", {"text": t, "got": fields(r)}, {"kind": "text", "text": t})
            except FE:
                ctx.mon("create_from_str")
            except Exception as e:
                ctx.violation("unparsable_text_raises_other_error", {"text": t, "exc": fmt_exc(e)}, {"kind": "text", "text": t})
            if i == 20:
                ctx.sample({"unparsable_text": t})
        return


def replay(rec, ctx):
    ns = load(plugin=False)
    if rec["kind"] == "id":
        check_id(ns, ctx, *rec["id"])
    elif rec["kind"] == "config":
        conf = {(k, v): bytes.fromhex(c) for k, v, c in rec["conf"]}
        check_config(ns, ctx, conf, rec["which"])
    else:
        try:
            r = ns.configid.ConfigId.create_from_str(rec["text"])
            ctx.ev()
            ctx.violation("unparsable_text_accepted", {"got": fields(r)}, rec)
        except ns.error.ConfigIdFormatError:
            ctx.ev()
