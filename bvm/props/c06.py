"""C06 - encrypted components are stored only as ciphertext and decrypt to the original.

Oracles: OpenSSL AES-128-CBC for the stored payload; equality for the read-back
content; substring scan for high-entropy secret needles; fault injection at every
crypto call for "writing fails rather than emitting plaintext"."""
import io
import os
import tempfile

from ..ctx import fmt_exc
from ..gen import bec2 as GB
from ..gen import files as G
from ..load import load
from ..refs import layout as L
from ..refs import ossl
from ..refs.layout import MComp

ID = "C06"
LEVEL = "exploration"
RULE = (
    "case = (content of length 1..80 incl. every length mod 16, 0..17 trailing zero bytes, all-zero; session key; BF3 or BEC2 framing; produced by "
    "set_config or by direct construction with flag + ENC tag). Per case: the stored payload inside the written binary must equal OpenSSL "
    "AES-128-CBC_{K,IV=0}(content | zero pad); reading with K must return the content up to its declared length with the flag set; high-entropy "
    "needles (session key, security code, customer key, 16-byte blocks of the configuration plaintext) must not occur in the written binary or "
    "text; with the cipher unregistered, or failing at ANY single crypto call index, writing must raise and what reached the stream/file must "
    "contain no needle. distinct = digest of the case; non-trivial = every case"
)
ASSUMPTIONS = [
    "'marked for session-key encryption' = flag and ENC tag, as set_config produces",
    "only high-entropy needles (>= 8 random bytes) are scanned; low-entropy contents are decided by the ciphertext comparison alone",
    "cipher registration changes are made inside the shard process and restored",
]
TIMEOUT = {"quick": 900, "thorough": 8 * 3600}
OPTIMIZED_SHARDS = ("enc02", "fault01")  # these shards also run under python -O
NSH = 16


def plan(tier, seed):
    n = 9600 if tier == "quick" else 300000
    jobs = [{"name": "enc%02d" % i, "spec": {"kind": "enc", "n": n // NSH, "i": i}} for i in range(NSH)]
    m = 128 if tier == "quick" else 6000
    jobs += [{"name": "fault%02d" % i, "spec": {"kind": "fault", "n": m // 8, "i": i}} for i in range(8)]
    jobs += [{"name": "threads%02d" % i, "spec": {"kind": "threads", "rounds": 3 if tier == "quick" else 40, "i": i}} for i in range(3 if tier == "quick" else 12)]
    return jobs


def mandatory_bins(tier):
    b = ["len_mod16_%d" % i for i in range(16)] + ["trailing_zeros_%d" % z for z in range(18)]
    b += ["all_zero_content", "via_set_config", "via_direct_construction", "framing_bf3", "framing_bec2", "needle_scan", "needle_session_key", "needle_security_code",
          "needle_customer_key", "needle_plaintext_block", "key_ends_00", "default_key", "cipher_unregistered", "cipher_fails_at_call", "cipher_fails_at_first_call",
          "cipher_fails_at_last_call", "fault_stream", "fault_path", "read_back_with_key", "long_content", "content_longer_than_1024", "rewrite_after_content_change", "rewrite_after_in_place_content_change", "set_config_over_preexisting_plain_configuration", "target_is_a_file_name", "read_back_without_mac_check", "rewrite_of_a_read_back_object", "rewrite_under_another_key", "marked_for_encryption_after_construction", "unusable_key_given_explicitly", "several_encrypted_components", "encrypted_component_not_last", "flag_set_with_other_enc_tag", "encryption_flag_passed_positionally", "content_given_as_bytearray", "files_written_and_read_by_concurrent_threads", "concurrent_threads_under_the_same_session_key", "plain_and_encrypted_components_with_identical_content"]
    return b


def make_conf(rng, ln, tz):
    """configuration whose TLV blob has a chosen length / trailing zeros is hard to steer;
    instead return a dict with one random high-entropy value and a security code"""
    conf = {(0x0202, 0x82): rng.randbytes(8), (0x0620, 0x07): b"\x03", (0x0620, 0x06): b"n"}
    conf[(0x4000, 1)] = rng.randbytes(ln)
    if tz:
        conf[(0xFFFF, 0xFE)] = rng.randbytes(2) + bytes(tz)
    return conf


def needles_of(key, code, ck, plain):
    out = []
    if key is not None and len(set(key)) > 6:
        out.append(("session_key", key))
    if code is not None and len(set(code)) > 4:
        out.append(("security_code", code))
    if ck is not None and len(set(ck)) > 5:
        out.append(("customer_key", ck))
    for i in range(0, len(plain) - 15, 16):
        blk = plain[i : i + 16]
        if len(set(blk)) > 9:
            out.append(("plaintext_block", blk))
    return out


def scan(ctx, what, needles, binary, text, rp):
    hexes = text.replace("\r", "").replace("\n", "") if text is not None else ""
    for name, nd in needles:
        ctx.bin("needle_" + name)
        ctx.mon("needle_scan")
        hit = (binary is not None and nd in binary) or (text is not None and (nd.hex().upper() in hexes.upper()))
        if text is not None:
            try:
                if nd.decode("latin-1") in text:
                    hit = True
            except Exception:
                pass
        if hit:
            ctx.violation("secret_in_clear:%s:%s" % (name, what), {"needle": nd}, rp)
    ctx.bin("needle_scan")


def check_case(ns, ctx, content, declared, key, framing, via, specs, conf, rp):
    BF = ns.bf3file
    B = ns.bec2file
    ctx.ev()
    ctx.distinct(content, declared, key, framing, via, GB.spec_json(specs) if specs else None)
    plain_other = MComp([(0xC3, b"\x02")], b"plain neighbour " + bytes(5), None, False)
    f = BF.Bf3File({"FirmwareId": "1100"}, [BF.Bf3Component(dict(plain_other.desc), plain_other.blob)])
    if via == "set_config" and len(content) % 3 == 0:
        # the package already ships a PLAIN configuration component (e.g. factory defaults read from a firmware file)
        old_desc = {0xC3: b"\x03", 0xC1: b"\x03"}
        if len(content) % 2:
            old_desc[0xC2] = b"\x00"
        f.components.append(BF.Bf3Component(old_desc, b"\x03\x02\x00\x01\x00", None, False))
        ctx.bin("set_config_over_preexisting_plain_configuration")
    if via == "set_config":
        f.set_config(dict(conf))
        rc = f.components[-1]
        content = bytes(rc.blob)
        declared = rc.actual_len
        desc = list(rc.description.items())
        ctx.bin("via_set_config")
    else:
        desc = [(0xC3, b"\x03"), (0xC2, b"\x02"), (0xC1, b"\x03")]
        if (len(content) + key[3]) % 4 == 2:
            # marked for encryption AFTER construction (public attribute + tag), as a tool converting a plain component would do
            comp_ = BF.Bf3Component({0xC3: b"\x03", 0xC1: b"\x03"}, content, declared)
            comp_.description[0xC2] = b"\x02"
            comp_.description = dict(desc)
            comp_.encrypt_by_session_key = True
            f.components.append(comp_)
            ctx.bin("marked_for_encryption_after_construction")
        elif (len(content) + key[3]) % 4 == 3:
            # the flag passed POSITIONALLY (4th argument of the constructor, as the signature allows)
            f.components.append(BF.Bf3Component(dict(desc), content, declared, True))
            ctx.bin("encryption_flag_passed_positionally")
        else:
            f.components.append(BF.Bf3Component(dict(desc), content, declared, encrypt_by_session_key=True))
        ctx.bin("via_direct_construction")
    ctx.bin("len_mod16_%d" % (len(content) % 16))
    tz = G.trailing_zeros(content)
    if tz == len(content):
        ctx.bin("all_zero_content")
    elif tz < 18:
        ctx.bin("trailing_zeros_%d" % tz)
    if key == bytes(16):
        ctx.bin("default_key")
    elif key[-1] == 0:
        ctx.bin("key_ends_00")
    mcase = G.Case([("FirmwareId", "1100")], [plain_other, MComp(desc, content, declared, True)])
    buf = io.StringIO()
    code = ck = None
    path = None
    if (len(content) + key[0]) % 4 == 1:
        # target given as a file NAME instead of an open stream
        fd, path = tempfile.mkstemp(prefix="c06-", suffix=".bf3", dir=os.environ.get("VERIF_SCRATCH"))
        os.close(fd)
        ctx.bin("target_is_a_file_name")
    try:
        if framing == "bf3":
            f.write_file(path if path else buf, key)
            ctx.bin("framing_bf3")
        else:
            bf = B.Bec2File(f, GB.real_auth_blocks(ns, specs), key)
            bf.write_file(path if path else buf, GB.write_encryptors(ns, specs))
            ctx.bin("framing_bec2")
            for s in specs:
                if s["kind"] == "update":
                    code = s["code"]
                if s["kind"] == "cust":
                    ck = s["ck"]
        ctx.mon("write_file")
    except Exception as e:
        ctx.violation("writer_raises_on_object_in_domain", {"exc": fmt_exc(e)}, rp)
        return
    finally:
        if path:
            with open(path) as fh:
                buf = io.StringIO(fh.read())
            os.unlink(path)
    text = buf.getvalue()
    # (a) stored payload = OpenSSL CBC(content | zero pad)
    try:
        _, binary = L.parse_text(text)
        if framing == "bf3":
            ents = L.parse_bf3(binary, key)
        else:
            _, pos = L.parse_bec2_header(binary)
            ents = L.parse_body(binary, pos, key)
    except L.LayoutError as e:
        ctx.violation("written_file_not_parsable_by_model:" + e.rule, {"err": str(e)}, rp)
        return
    exp = ossl.aes_cbc(key, ossl.ZERO_IV, ossl.pad0(content), True)
    ctx.mon("stored_payload_vs_openssl")
    st = ents[-1].payload
    if st != exp:
        if st == content or st == ossl.pad0(content):
            what = "stored_as_plaintext"
        elif len(st) != len(exp):
            what = "length"
        elif st[:16] == exp[:16]:
            what = "later_blocks_differ(padding_or_chaining)"
        else:
            what = "other_key_iv_or_cipher"
        ctx.violation("stored_payload_is_not_cbc_ciphertext_of_padded_content:" + what, {"got": st[:48], "expected": exp[:48], "len": len(content)}, rp)
    if ents[-1].declared != declared:
        ctx.violation("declared_length_in_directory", {"got": ents[-1].declared, "expected": declared}, rp)
    # (c) needles
    conf_code = conf.get((0x0202, 0x82)) if conf else None
    scan(ctx, "written_file", needles_of(key, code or conf_code, ck, content), binary, text, rp)
    # (b) read back
    try:
        if framing == "bf3":
            back = BF.Bf3File.read_file(io.StringIO(text), True, key)
        else:
            back = B.Bec2File.read_file(io.StringIO(text), GB.read_encryptors(ns, specs), True).bf3file
        ctx.mon("read_file")
        ctx.bin("read_back_with_key")
    except Exception as e:
        ctx.violation("reader_rejects_file_written_by_writer", {"exc": fmt_exc(e)}, rp)
        return
    d = G.diff_file(back, mcase)
    if d:
        ctx.violation("read_back_differs:" + d[0].split("[")[0], {"diff": d, "got_blob": bytes(back.components[-1].blob)[:48] if back.components else None}, rp)
        return
    # (b') the same file read with the MAC check switched off (correct key), and that object written again
    try:
        if framing == "bf3":
            back2 = BF.Bf3File.read_file(io.StringIO(text), False, key)
        else:
            back2 = B.Bec2File.read_file(io.StringIO(text), GB.read_encryptors(ns, specs), False)
        ctx.bin("read_back_without_mac_check")
        d = G.diff_file(back2 if framing == "bf3" else back2.bf3file, mcase)
        if d:
            ctx.violation("read_back_without_mac_check_differs:" + d[0].split("[")[0], {"diff": d}, rp)
            return
        buf3 = io.StringIO()
        if framing == "bf3":
            back2.write_file(buf3, key)
            back3 = BF.Bf3File.read_file(io.StringIO(buf3.getvalue()), True, key)
        else:
            back2.write_file(buf3, GB.write_encryptors(ns, specs))
            back3 = B.Bec2File.read_file(io.StringIO(buf3.getvalue()), GB.read_encryptors(ns, specs), True).bf3file
        ctx.bin("rewrite_of_a_read_back_object")
        d = G.diff_file(back3, mcase)
        if d:
            ctx.violation("rewrite_of_read_back_object_differs:" + d[0].split("[")[0], {"diff": d}, rp)
            return
    except Exception as e:
        ctx.violation("read_or_rewrite_of_written_file_raises", {"exc": fmt_exc(e)}, rp)
        return
    # (b'') key changes: the object that was READ under this key is written under ANOTHER key; the key of a BEC2 object is
    # reassigned after construction; one Bf3File sits in two BEC2 objects with different keys.  Every file written must hold
    # the content as CBC ciphertext under ITS key and read back with it.
    if (len(content) + key[-1]) % 3 == 0:
        k2 = bytes((b ^ 0xA7) for b in key[::-1])

        def stored_ok(text_, k_, what):
            _, bin_ = L.parse_text(text_)
            ents_ = L.parse_bf3(bin_, k_) if framing == "bf3" else L.parse_body(bin_, L.parse_bec2_header(bin_)[1], k_)
            ctx.mon("stored_payload_vs_openssl")
            if ents_[-1].payload != ossl.aes_cbc(k_, ossl.ZERO_IV, ossl.pad0(content), True):
                under_old = ents_[-1].payload == exp
                ctx.violation("stored_payload_not_under_the_files_key:" + what + (":still_ciphertext_of_the_previous_key" if under_old else ""), {"len": len(content)}, rp)
                return False
            return True

        try:
            ctx.bin("rewrite_under_another_key")
            b4 = io.StringIO()
            if framing == "bf3":
                back2.write_file(b4, k2)
                if stored_ok(b4.getvalue(), k2, "read_object_written_under_another_key"):
                    d = G.diff_file(BF.Bf3File.read_file(io.StringIO(b4.getvalue()), True, k2), mcase)
                    if d:
                        ctx.violation("rewrite_under_another_key_reads_back_differently:" + d[0].split("[")[0], {"diff": d}, rp)
            else:
                nb = B.Bec2File(back2.bf3file, list(back2.auth_blocks.values()), k2)
                nb.write_file(b4, GB.write_encryptors(ns, specs))
                ok = stored_ok(b4.getvalue(), k2, "read_object_written_under_another_key")
                # the key attribute of the first object reassigned after construction
                k3 = bytes((b ^ 0x3C) for b in key)
                bf.session_key = k3
                b5 = io.StringIO()
                bf.write_file(b5, GB.write_encryptors(ns, specs))
                ok = stored_ok(b5.getvalue(), k3, "session_key_attribute_reassigned") and ok
                # the same Bf3File in a second BEC2 object with its own key
                k4 = bytes((b ^ 0x99) for b in key)
                other = B.Bec2File(f, GB.real_auth_blocks(ns, specs), k4)
                b6, b7 = io.StringIO(), io.StringIO()
                other.write_file(b6, GB.write_encryptors(ns, specs))
                bf.write_file(b7, GB.write_encryptors(ns, specs))
                ok = stored_ok(b6.getvalue(), k4, "one_bf3file_in_two_bec2_objects") and stored_ok(b7.getvalue(), k3, "one_bf3file_in_two_bec2_objects") and ok
                if ok:
                    for t_, k_ in ((b4, k2), (b5, k3), (b6, k4)):
                        r_ = B.Bec2File.read_file(io.StringIO(t_.getvalue()), GB.read_encryptors(ns, specs), True)
                        d = G.diff_file(r_.bf3file, mcase)
                        if d or bytes(r_.session_key) != k_:
                            ctx.violation("rewrite_under_another_key_reads_back_differently:" + (d[0].split("[")[0] if d else "session_key"), {"diff": d}, rp)
                            break
                bf.session_key = key
        except Exception as e:
            ctx.violation("rewrite_under_another_key_fails", {"exc": fmt_exc(e)}, rp)
            return
    # ---- history: the SAME object is changed and written again under the same key ---------------------
    if len(content) <= 200:
        ctx.bin("rewrite_after_content_change")
        new_content = bytes((b ^ 0x5A) for b in content[::-1]) + b"\x01"
        if via == "set_config":
            conf2 = dict(conf)
            conf2[(0x4001, 2)] = new_content[:100]
            f.set_config(conf2)
            new_content = bytes(f.components[-1].blob)
        elif (len(content) // 2) % 2:
            f.components[-1] = BF.Bf3Component(dict(desc), new_content, len(new_content), encrypt_by_session_key=True)
        else:
            # same component object, content reassigned in place
            f.components[-1].blob = new_content
            f.components[-1].actual_len = len(new_content)
            ctx.bin("rewrite_after_in_place_content_change")
        buf2 = io.StringIO()
        try:
            if framing == "bf3":
                f.write_file(buf2, key)
            else:
                bf.write_file(buf2, GB.write_encryptors(ns, specs))
            _, binary2 = L.parse_text(buf2.getvalue())
            ents2 = L.parse_bf3(binary2, key) if framing == "bf3" else L.parse_body(binary2, L.parse_bec2_header(binary2)[1], key)
        except Exception as e:
            ctx.violation("second_write_of_changed_object_fails", {"exc": fmt_exc(e)}, rp)
            return
        ctx.mon("stored_payload_vs_openssl")
        if ents2[-1].payload != ossl.aes_cbc(key, ossl.ZERO_IV, ossl.pad0(new_content), True) or ents2[-1].declared != len(new_content):
            stale = ents2[-1].payload == exp
            ctx.violation("second_write_of_changed_object_stores_" + ("the_previous_ciphertext" if stale else "wrong_ciphertext"), {"len_old": len(content), "len_new": len(new_content)}, rp)


def check_multi(ns, ctx, rng, key, framing, specs):
    """several session-key encrypted components in one file, in any position (first, between plain ones, last): each is stored
    as the CBC ciphertext of ITS content (fresh chain, zero IV) and reads back as its content"""
    BF, B = ns.bf3file, ns.bec2file
    layout = rng.choice(("EPE", "EEP", "PEEP", "EP", "EEE", "PEPE"))
    comps = []
    same_content = rng.random() < 0.3
    if same_content:
        # components whose contents are byte-identical (one image stored in the clear for one use and encrypted for another, or
        # the same secret in two slots): each is stored by its own mark
        ctx.bin("plain_and_encrypted_components_with_identical_content")
        shared_ln = rng.choice((1, 15, 16, 17, 32, 40, 100))
        shared_blob = rng.randbytes(shared_ln)
    for ch in layout:
        ln = rng.choice((1, 15, 16, 17, 32, 40, 100))
        blob = rng.randbytes(ln)
        if same_content:
            ln, blob = shared_ln, shared_blob
        if ch == "E":
            comps.append(MComp([(0xC3, b"\x02"), (0xC2, b"\x02"), (1, bytes((len(comps),)))], blob, ln, True))
        else:
            comps.append(MComp([(0xC3, b"\x02"), (1, bytes((len(comps),)))], blob, ln, False))
    mcase = G.Case([("FirmwareId", "1100")], comps)
    rp = {"kind": "multi", "layout": layout, "key": key.hex(), "framing": framing, "case": mcase.to_json(), "specs": GB.spec_json(specs) if specs else None}
    ctx.ev()
    ctx.bin("several_encrypted_components")
    if layout[-1] != "E":
        ctx.bin("encrypted_component_not_last")
    ctx.distinct("multi", layout, key, framing, mcase.digest_parts())
    f = G.build_real(ns, mcase)
    buf = io.StringIO()
    try:
        if framing == "bf3":
            f.write_file(buf, key)
        else:
            B.Bec2File(f, GB.real_auth_blocks(ns, specs), key).write_file(buf, GB.write_encryptors(ns, specs))
        text = buf.getvalue()
        _, binary = L.parse_text(text)
        ents = L.parse_bf3(binary, key) if framing == "bf3" else L.parse_body(binary, L.parse_bec2_header(binary)[1], key)
    except Exception as e:
        ctx.violation("writer_raises_on_object_in_domain" if not isinstance(e, L.LayoutError) else "written_file_not_parsable_by_model:" + e.rule, {"exc": fmt_exc(e), "layout": layout}, rp)
        return
    ctx.mon("stored_payload_vs_openssl", layout.count("E"))
    for i, (c, e) in enumerate(zip(comps, ents)):
        if e.payload != c.stored(key):
            ctx.violation("stored_payload_is_not_cbc_ciphertext_of_padded_content:component_%s_of_%s" % ("first" if i == 0 else "last" if i == len(comps) - 1 else "middle", layout) if c.encrypted else "plain_component_stored_differently", {"index": i, "layout": layout}, rp)
            return
    for cm in (True, False):
        try:
            if framing == "bf3":
                back = BF.Bf3File.read_file(io.StringIO(text), cm, key)
            else:
                back = B.Bec2File.read_file(io.StringIO(text), GB.read_encryptors(ns, specs), cm).bf3file
            ctx.mon("read_file")
        except Exception as e:
            ctx.violation("reader_rejects_file_written_by_writer", {"exc": fmt_exc(e), "layout": layout, "mac_check": cm}, rp)
            return
        d = G.diff_file(back, mcase)
        if d:
            ctx.violation("read_back_differs:" + d[0].split("[")[0], {"diff": d, "layout": layout, "mac_check": cm}, rp)
            return


def check_flag_wins(ns, ctx, rng, key):
    """a component whose encryption FLAG is set although its description says otherwise (ENC=PLAIN, ENC=FWKEY, no ENC tag - e.g.
    tags taken over from a plain component): the flag is what the writer goes by, so the stored payload is ciphertext and the
    content does not appear in clear.  (What a reader makes of such a file is not judged: it follows the tag.)"""
    BF = ns.bf3file
    content = rng.randbytes(rng.choice((16, 24, 48, 80)))
    for desc in ({0xC3: b"\x03", 0xC2: b"\x00"}, {0xC3: b"\x03", 0xC2: b"\x01"}, {0xC3: b"\x02"}, {}):
        rp = {"kind": "flag", "desc": {str(k): v.hex() for k, v in desc.items()}, "key": key.hex(), "content": content.hex()}
        ctx.ev()
        ctx.bin("flag_set_with_other_enc_tag")
        ctx.distinct("flag", sorted(desc.items()), key, content)
        f = BF.Bf3File({}, [BF.Bf3Component(dict(desc), content, None, encrypt_by_session_key=True)])
        buf = io.StringIO()
        try:
            f.write_file(buf, key)
            binary = f.to_binary(0, key)
        except Exception as e:
            ctx.exc(e)
            continue  # refusing the inconsistent component is fine
        ctx.mon("write_file")
        scan(ctx, "flagged_component_with_other_enc_tag", needles_of(None, None, None, content), binary, buf.getvalue(), rp)
        try:
            ents = L.parse_body(binary, 0, key)
            ctx.mon("stored_payload_vs_openssl")
            if ents[0].payload != ossl.aes_cbc(key, ossl.ZERO_IV, ossl.pad0(content), True):
                ctx.violation("stored_payload_is_not_cbc_ciphertext_of_padded_content:flag_set_with_other_enc_tag", {"desc": rp["desc"], "stored_as_plaintext": ents[0].payload[: len(content)] == content}, rp)
        except L.LayoutError as e:
            ctx.violation("written_file_not_parsable_by_model:" + e.rule, {"desc": rp["desc"]}, rp)


def check_bytearray_content(ns, ctx, rng, key):
    """content of an encrypted component handed over as a bytearray (block-aligned and not): the writer may refuse it; if it
    writes, the stored payload is the CBC ciphertext of the content and the caller's buffer is left as it was"""
    BF = ns.bf3file
    for ln in (16, 32, 20, 48):
        content = rng.randbytes(ln)
        buf_ = bytearray(content)
        rp = {"kind": "bytearray", "key": key.hex(), "content": content.hex()}
        ctx.ev()
        ctx.bin("content_given_as_bytearray")
        ctx.distinct("bytearray", key, content)
        f = BF.Bf3File({}, [BF.Bf3Component({0xC3: b"\x03", 0xC2: b"\x02"}, buf_, ln, encrypt_by_session_key=True)])
        try:
            binary = f.to_binary(0, key)
        except Exception as e:
            ctx.exc(e)
            if bytes(buf_) != content:
                ctx.violation("writer_modifies_the_callers_buffer", {"len": ln, "although": "it refused the component"}, rp)
            continue
        ctx.mon("write_file")
        try:
            ents = L.parse_body(binary, 0, key)
            ctx.mon("stored_payload_vs_openssl")
            if ents[0].payload != ossl.aes_cbc(key, ossl.ZERO_IV, ossl.pad0(content), True):
                ctx.violation("stored_payload_is_not_cbc_ciphertext_of_padded_content:content_given_as_bytearray", {"len": ln}, rp)
        except L.LayoutError as e:
            ctx.violation("written_file_not_parsable_by_model:" + e.rule, {"content": "bytearray", "len": ln}, rp)
        if bytes(buf_) != content:
            ctx.violation("writer_modifies_the_callers_buffer", {"len": ln}, rp)


class Fault(Exception):
    pass


def make_failing_cipher(ns, fail_at, counter):
    """subclass of the registered cipher that raises at crypto call number fail_at"""
    Base = ns.plugin.AES128Proxy

    class FailingAES(Base):
        def _tick(self):
            counter[0] += 1
            if counter[0] == fail_at:
                raise Fault("injected cipher failure at call %d" % fail_at)

        def encrypt(self, data):
            self._tick()
            return Base.encrypt(self, data)

        def mac(self, data):
            # Base.mac calls self.encrypt: count once
            self._tick()
            return Base.encrypt(self, data)[-16:]

    return FailingAES


def fault_case(ns, ctx, rng, scratch, idx):
    BF = ns.bf3file
    B = ns.bec2file
    key = rng.randbytes(16)
    secret = rng.randbytes(rng.choice((16, 32, 40)))
    conf = {(0x0202, 0x82): rng.randbytes(8), (0x4000, 1): secret, (0x0620, 0x07): b"\x01", (0x0620, 0x06): b"n"}
    framing = "bec2" if idx % 2 else "bf3"
    specs = GB.gen_blocks(rng, rng.choice((("cust",), ("update",), ("cust", "update")))) if framing == "bec2" else None
    rp = {"kind": "fault", "key": key.hex(), "secret": secret.hex(), "framing": framing}

    def build():
        f = BF.Bf3File({"c": "d"}, [BF.Bf3Component({0xC3: b"\x02"}, rng.randbytes(20))])
        f.set_config(dict(conf))
        if framing == "bec2":
            return B.Bec2File(f, GB.real_auth_blocks(ns, specs), key), f.components[-1].blob
        return f, f.components[-1].blob

    def write(obj, target, encs):
        if framing == "bec2":
            obj.write_file(target, encs)
        else:
            obj.write_file(target, key)

    # count crypto calls of a clean write
    counter = [0]
    ns.crypto.register_AES128(make_failing_cipher(ns, -1, counter))
    try:
        obj, blob = build()
        encs = GB.write_encryptors(ns, specs) if specs else None
        write(obj, io.StringIO(), encs)
        total = counter[0]
    finally:
        ns.crypto.register_AES128(ns.plugin.AES128Proxy)
    needles = needles_of(key, conf[(0x0202, 0x82)], None, bytes(blob)) + [("plaintext_block", secret[:16])]
    # fail at every call index
    for fail_at in range(1, total + 1):
        for mode in ("stream", "path"):
            if mode == "path" and fail_at not in (1, total, total // 2):
                continue
            counter = [0]
            ns.crypto.register_AES128(make_failing_cipher(ns, fail_at, counter))
            target = io.StringIO() if mode == "stream" else os.path.join(scratch, "fault-%d.txt" % idx)
            if mode == "path" and os.path.exists(target):
                os.unlink(target)
            raised = False
            try:
                obj, blob = build()
                encs = GB.write_encryptors(ns, specs) if specs else None
                write(obj, target, encs)
            except Exception as e:
                raised = True
                ctx.exc(e)
            finally:
                ns.crypto.register_AES128(ns.plugin.AES128Proxy)
            ctx.ev()
            ctx.distinct("fault", idx, fail_at, mode)
            ctx.bin("cipher_fails_at_call")
            ctx.bin("fault_" + mode)
            if fail_at == 1:
                ctx.bin("cipher_fails_at_first_call")
            if fail_at == total:
                ctx.bin("cipher_fails_at_last_call")
            ctx.mon("fault_injected")
            out = target.getvalue() if mode == "stream" else (open(target, "rb").read().decode("latin-1") if os.path.exists(target) else "")
            if not raised:
                ctx.violation("write_returns_normally_although_cipher_failed", {"fail_at": fail_at, "of": total, "mode": mode, "framing": framing}, rp)
            scan(ctx, "after_cipher_failure", needles, out.encode("latin-1", "replace"), out, rp)
    # an unusable key handed over explicitly (None, empty, short): whatever the writer does with it, what reaches the target
    # must not contain the plaintext
    for badkey in (None, b"", b"short"):
        for how in ("write_file", "to_binary"):
            target = io.StringIO()
            out_bin = b""
            try:
                obj, blob = build()
                f3 = obj.bf3file if framing == "bec2" else obj
                if how == "write_file":
                    f3.write_file(target, badkey)
                else:
                    out_bin = f3.to_binary(0, badkey) or b""
            except Exception as e:
                ctx.exc(e)
            ctx.ev()
            ctx.bin("unusable_key_given_explicitly")
            ctx.mon("fault_injected")
            out = target.getvalue()
            scan(ctx, "unusable_key_%s" % ("none" if badkey is None else "len%d" % len(badkey)), [n_ for n_ in needles if n_[0] == "plaintext_block"], bytes(out_bin), out, rp)
    # cipher not registered at all (base class raises NotImplementedError)
    ns.crypto.register_AES128(ns.crypto.AES128)
    try:
        for mode in ("stream", "path"):
            target = io.StringIO() if mode == "stream" else os.path.join(scratch, "unreg-%d.txt" % idx)
            raised = False
            try:
                ns.crypto.register_AES128(ns.plugin.AES128Proxy)
                obj, blob = build()
                encs = GB.write_encryptors(ns, specs) if specs else None
                ns.crypto.register_AES128(ns.crypto.AES128)
                write(obj, target, encs)
            except Exception as e:
                raised = True
                ctx.exc(e)
            ctx.ev()
            ctx.bin("cipher_unregistered")
            ctx.mon("fault_injected")
            out = target.getvalue() if mode == "stream" else (open(target, "rb").read().decode("latin-1") if os.path.exists(target) else "")
            if not raised:
                ctx.violation("write_returns_normally_although_cipher_unregistered", {"mode": mode, "framing": framing}, rp)
            scan(ctx, "cipher_unregistered", needles, out.encode("latin-1", "replace"), out, rp)
    finally:
        ns.crypto.register_AES128(ns.plugin.AES128Proxy)


def run_threads(ns, ctx, spec):
    """files with encrypted components written, and read back, by several threads at once (own objects; same or different session keys),
    interleaved at every source line of the BF3 writer / reader, the cipher adapter and the CBC mode: every stored payload is the CBC
    ciphertext of its own content under its own key, and every read returns its own content"""
    from ..sched import yieldrun

    BF = ns.bf3file
    rng = ctx.rng
    codes = yieldrun.code_objects_of_module(ns.bf3file, ns.crypto, ns.plugin) + yieldrun.code_objects_of(ns.aes.AESModeOfOperationCBC, ns.aes.AESBlockModeOfOperation)
    total = 0
    for rnd in range(spec["rounds"]):
        nthreads = (2, 3, 4)[(rnd + spec["i"]) % 3]
        same_key = rnd % 2 == 1
        k0 = rng.randbytes(16)
        keys = [k0 if same_key else rng.randbytes(16) for _ in range(nthreads)]
        contents = [[rng.randbytes(rng.choice((1, 15, 16, 17, 33, 48, 100))) for _ in range(rng.choice((1, 2)))] for _ in range(nthreads)]

        def body(i):
            def run():
                comps = [BF.Bf3Component({0xC3: b"\x03", 0xC2: b"\x02", 1: bytes([j])}, c, len(c), encrypt_by_session_key=True) for j, c in enumerate(contents[i])]
                comps.insert(1, BF.Bf3Component({1: b"p"}, b"plain part"))
                buf = io.StringIO()
                BF.Bf3File({}, comps).write_file(buf, keys[i])
                back = BF.Bf3File.read_file(io.StringIO(buf.getvalue()), True, keys[i])
                return buf.getvalue(), back
            return run

        res, y = yieldrun.run_concurrently([body(i) for i in range(nthreads)], codes, sleep=0.0002, max_yields=8000)
        total += y
        ctx.bin("files_written_and_read_by_concurrent_threads")
        if same_key:
            ctx.bin("concurrent_threads_under_the_same_session_key")
        for i, r in enumerate(res):
            ctx.ev()
            ctx.distinct("threads", rnd, keys[i], contents[i])
            rp = {"kind": "threads", "i": spec["i"]}
            if r is None:
                ctx.note("thread_still_running_after_timeout(inconclusive)")
                continue
            if r[0] == "exc":
                ctx.violation("write_or_read_raises_under_concurrent_use", {"exc": r[1][:200], "threads": nthreads, "same_key": same_key}, rp)
                continue
            text, back = r[1]
            ctx.mon("write_file")
            try:
                ents = L.parse_bf3(L.parse_text(text)[1], keys[i])
            except L.LayoutError as e:
                ctx.violation("written_file_not_parsable_by_model:" + e.rule, {"how": "written_by_concurrent_threads", "threads": nthreads, "same_key": same_key}, rp)
                continue
            enc_ents = [e for e in ents if dict(e.desc).get(0xC2) == b"\x02"]
            ctx.mon("stored_payload_vs_openssl")
            for e, c in zip(enc_ents, contents[i]):
                if e.payload != ossl.aes_cbc(keys[i], ossl.ZERO_IV, ossl.pad0(c), True):
                    ctx.violation("stored_payload_is_not_cbc_ciphertext_of_padded_content:written_by_concurrent_threads", {"len": len(c), "threads": nthreads, "same_key": same_key}, rp)
                    break
            if back is not None:
                ctx.mon("read_back")
                got = [bytes(c.blob)[: c.actual_len] for c in back.components if c.description.get(0xC2) == b"\x02"]
                if got != contents[i]:
                    ctx.violation("read_back_differs_from_content:read_by_concurrent_threads", {"threads": nthreads, "same_key": same_key}, rp)
    ctx.mon("line_yields_injected", total)


def run_shard(spec, ctx):
    ns = load()
    rng = ctx.rng
    if spec["kind"] == "threads":
        run_threads(ns, ctx, spec)
        return
    if spec["kind"] == "fault":
        scratch = tempfile.mkdtemp(prefix="c06-", dir=os.environ.get("VERIF_SCRATCH"))
        try:
            for j in range(spec["n"]):
                fault_case(ns, ctx, rng, scratch, spec["i"] * 1000 + j)
        finally:
            import shutil

            shutil.rmtree(scratch, ignore_errors=True)
            ns.crypto.register_AES128(ns.plugin.AES128Proxy)
        ctx.sample({"kind": "fault", "note": "cipher failure injected at every crypto call index of one write"})
        return
    LONG = [1008, 1023, 1024, 1025, 1040, 2047, 2048, 2049, 4096, 4097, 5000, 8192, 16400]
    for j in range(spec["n"]):
        idx = spec["i"] + NSH * j
        ln = idx % 80 + 1
        if idx % 23 == 5:
            ln = LONG[(idx // 23) % len(LONG)] if ctx.tier != "quick" or (idx // 23) % len(LONG) < 9 else (8192 + 16 if (idx // 23) % len(LONG) == 11 else 1025)
            ctx.bin("long_content")
            if ln > 1024:
                ctx.bin("content_longer_than_1024")
        tz = (idx // 80) % 19
        if tz >= ln:
            tz = ln - 1
        r = rng.random()
        if r < 0.06:
            content = bytes(ln)
        else:
            head = rng.randbytes(ln - tz)
            if head and head[-1] == 0:
                head = head[:-1] + b"\x01"
            content = head + bytes(tz)
        declared = ln if rng.random() < 0.7 else rng.randrange(1, ln + 1)
        key = G.gen_key(rng)
        framing = "bec2" if idx % 3 == 0 else "bf3"
        specs = None
        if framing == "bec2":
            specs = GB.gen_blocks(rng, rng.choice((("cust",), ("update",), ("cust", "update"), ("update", "cust")) if idx % 9 else (("ecc",), ("cust", "ecc"))))
            if key == bytes(16):
                key = rng.randbytes(16)
        via = "set_config" if idx % 2 and ln <= 100 else "direct"
        if ln > 100 and idx % 2:
            # large configuration: many entries -> multi-block TLV blob of several KB
            via = "set_config"
            conf = {(0x5000 + i, i % 200): rng.randbytes(100) for i in range(ln // 105 + 1)}
            conf[(0x0202, 0x82)] = rng.randbytes(8)
        conf = (conf if ln > 100 and idx % 2 else make_conf(rng, ln, tz)) if via == "set_config" else None
        rp = {"kind": "enc", "content": content.hex(), "declared": declared, "key": key.hex(), "framing": framing, "via": via, "specs": GB.spec_json(specs) if specs else None,
              "conf": [[k, v, c.hex()] for (k, v), c in conf.items()] if conf else None}
        check_case(ns, ctx, content, declared, key, framing, via, specs, conf, rp)
        if idx % 4 == 1:
            check_multi(ns, ctx, rng, key, framing, specs)
        if idx % 16 == 3:
            check_flag_wins(ns, ctx, rng, key)
        if idx % 16 == 7:
            check_bytearray_content(ns, ctx, rng, key)
        if j == 0:
            ctx.sample({k: rp[k] for k in ("content", "declared", "key", "framing", "via")})


def replay(rec, ctx):
    ns = load()
    if rec["kind"] == "threads":
        run_threads(ns, ctx, {"rounds": 6, "i": rec["i"]})
    elif rec["kind"] == "bytearray":
        check_bytearray_content(ns, ctx, ctx.rng, bytes.fromhex(rec["key"]))
    elif rec["kind"] == "flag":
        check_flag_wins(ns, ctx, ctx.rng, bytes.fromhex(rec["key"]))
    elif rec["kind"] == "multi":
        check_multi(ns, ctx, ctx.rng, bytes.fromhex(rec["key"]), rec["framing"], GB.spec_from_json(rec["specs"]) if rec.get("specs") else None)
    elif rec["kind"] == "enc":
        conf = {(k, v): bytes.fromhex(c) for k, v, c in rec["conf"]} if rec.get("conf") else None
        check_case(ns, ctx, bytes.fromhex(rec["content"]), rec["declared"], bytes.fromhex(rec["key"]), rec["framing"], rec["via"], GB.spec_from_json(rec["specs"]) if rec.get("specs") else None, conf, rec)
    else:
        scratch = tempfile.mkdtemp(prefix="c06-")
        try:
            fault_case(ns, ctx, ctx.rng, scratch, 1)
        finally:
            import shutil

            shutil.rmtree(scratch, ignore_errors=True)
