"""C14 - parsers fail only with format errors and always terminate.

Monitors: exception-type monitor (type + raising function = mechanism key),
StepBudget (sys.monitoring function-entry/jump counter: logical evidence of
termination) and a global-state snapshot compared before/after."""
import io
import os
import signal
import tempfile

from ..ctx import raising_site
from ..gen import bec2 as GB
from ..gen import files as G
from ..load import load
from ..monitors import StepBudget, StepBudgetExceeded, global_state
from ..refs import bf2 as R2
from ..refs import container, ecies
from ..refs import layout as L
from ..refs.layout import MComp

ID = "C14"
LEVEL = "exploration"
RULE = (
    "case = (entry point, configuration, text). Entry points: Bf3File.read_file (stream/path, MAC on/off), Bec2File.read_file with decryptor sets {none, public-only "
    "ECC, matching, wrong private key, wrong AES key, wrong security code, all}, Bf3File.bf2_import (both modes, stream/path), ConfigId.create_from_str, pfid2_filter_to_str. Texts: "
    "ALL single-character replacements/deletions (over a 7-character alphabet) and ALL prefixes of valid files per format, multi-mutations, line swaps/duplications, token "
    "insertions, grammar-generated near-valid files with MACs recomputed (deep paths), random text/hex. Oracle: returns, or raises FormatError/ValueError subclasses; "
    "work on inputs of one shape and sizes N, 2N, 4N (BF2 with thousands of non-contiguous lines, BF3 with many components / comment lines / a long payload, BEC2 with many blocks, long identifier names) grows about linearly (ratio 4N/N of logical steps <= 9); step count within a budget linear in the input size and user-CPU time of the single call below 20 s + 2 ms/char (for loops inside C code such as regular expressions); global state unchanged. distinct = digest of (entry, config, text); non-trivial = text differs from the valid file"
)
ASSUMPTIONS = [
    "'never hangs' is decided as: function entries + jumps counted by sys.monitoring stay below 3,000,000 + 30,000 x len(text) (more than 50x the largest count seen on valid inputs of that size)",
    "loops inside C code (regular-expression backtracking) are invisible to that counter: each call additionally has a user-CPU-time bound of 20 s + 2 ms per character (ITIMER_VIRTUAL, i.e. time the process actually executes - independent of machine load); typical calls take micro- to milliseconds",
    "UnicodeDecodeError / binascii.Error are ValueError subclasses and allowed",
    "the wall-clock watchdog around a shard only ever yields INCONCLUSIVE",
]
TIMEOUT = {"quick": 1200, "thorough": 8 * 3600}
OPTIMIZED_SHARDS = ("deep00", "rand00", "mut01")  # these shards also run under python -O
NSH = 16
ALPHABET = ["0", "F", ":", "\n", " ", "x", "é"]
BUDGET_A, BUDGET_B = 3_000_000, 30_000
MAX_EXTRA = ("largest_growth_ratio_steps_4N_over_N_x100",)
CPU_BUDGET_S, CPU_BUDGET_PER_CHAR = 20.0, 0.002


def plan(tier, seed):
    q = tier == "quick"
    jobs = []
    for i in range(NSH):
        jobs.append({"name": "mut%02d" % i, "spec": {"kind": "mutate", "i": i, "files": 1 if q else 12}})
    for i in range(8 if q else NSH):
        jobs.append({"name": "deep%02d" % i, "spec": {"kind": "deep", "n": 60 if q else 8000, "i": i}})
    for i in range(4 if q else NSH):
        jobs.append({"name": "rand%02d" % i, "spec": {"kind": "random", "n": 2500 if q else 250000}})
    jobs.append({"name": "firstop_foreign_curve", "spec": {"kind": "firstop"}})
    for i, shape in enumerate(GROWTH_SHAPES):
        jobs.append({"name": "growth_" + shape, "spec": {"kind": "growth", "shape": shape, "scale": 1 if q else 3}})
    return jobs


def mandatory_bins(tier):
    b = ["entry:bf3_stream", "entry:bf3_path", "entry:bf3_nomac", "entry:bec2_none", "entry:bec2_public_only_ecc", "entry:bec2_matching", "entry:bec2_wrong_private", "entry:bec2_wrong_aes_key",
         "entry:bec2_wrong_code", "entry:bec2_all", "entry:bf2_enforce", "entry:bf2_no_enforce", "entry:bf2_path", "entry:bec2_path_nomac", "entry:configid", "entry:pfid2", "all_prefixes", "all_single_char_mutations",
         "line_swap", "line_duplicate", "token_insert", "multi_mutation", "random_text", "random_hex", "global_state_compared", "reference_inputs_rechecked", "returned_normally", "raised_format_error", "raised_value_error"]
    b += ["deep:" + d for d in DEEP] + ["growth:" + g for g in GROWTH_SHAPES] + ["first_key_agreement_of_the_process_uses_a_key_of_another_curve"]
    return b


def mandatory_monitors(tier):
    return ["step_budget_run", "exception_type_monitor"]


class CpuBudgetExceeded(BaseException):
    """raised by the SIGVTALRM handler: one parser call used more user-CPU time than CPU_BUDGET_S"""


def _on_vtalrm(signum, frame):
    raise CpuBudgetExceeded()


class Monitor:
    def __init__(self, ns, ctx):
        self.ns = ns
        self.ctx = ctx
        self.budget = StepBudget()
        self.cpu_hits = {}
        signal.signal(signal.SIGVTALRM, _on_vtalrm)
        self.allowed = (ns.error.FormatError, ValueError)
        self.snap = global_state(ns)
        self.ref0 = self.reference_digest()

    def call(self, entry, fn, text, rp):
        ctx = self.ctx
        ctx.ev()
        ctx.bin("entry:" + entry)
        n = len(text)
        if self.cpu_hits.get(entry, 0) >= 3:
            ctx.note("entry_not_called_again_after_3_cpu_budget_violations:" + entry)
            return
        try:
            # work done inside C code (regular expressions, bytes methods) is invisible to the step counter: a second,
            # load-independent bound on the user-CPU time of this single call (ITIMER_VIRTUAL counts only while the
            # process runs); the regex engine and the interpreter both poll for the signal
            signal.setitimer(signal.ITIMER_VIRTUAL, CPU_BUDGET_S + CPU_BUDGET_PER_CHAR * n)
            try:
                self.budget.run(fn, BUDGET_A + BUDGET_B * n, n)
            finally:
                signal.setitimer(signal.ITIMER_VIRTUAL, 0)
            ctx.bin("returned_normally")
        except CpuBudgetExceeded:
            signal.setitimer(signal.ITIMER_VIRTUAL, 0)
            self.cpu_hits[entry] = self.cpu_hits.get(entry, 0) + 1
            ctx.violation("cpu_time_budget_exceeded:" + entry, {"len": n, "budget_s": CPU_BUDGET_S + CPU_BUDGET_PER_CHAR * n}, rp)
        except StepBudgetExceeded as e:
            ctx.violation("step_budget_exceeded:" + entry, {"len": n, "steps": self.budget.steps}, rp)
        except self.allowed as e:
            ctx.exc(e)
            ctx.bin("raised_format_error" if isinstance(e, self.ns.error.FormatError) else "raised_value_error")
        except Exception as e:
            ctx.exc(e)
            f, fu = raising_site(e)
            ctx.violation("unrelated_exception:%s:%s:%s:%s" % (entry.split("_")[0], type(e).__name__, f, fu), {"entry": entry, "msg": str(e)[:120], "len": n}, rp)
        ctx.mon("step_budget_run")
        ctx.mon("exception_type_monitor")

    def reference_digest(self):
        """result digests of fixed reference inputs for every entry point: must not depend on
        what was parsed in between (catches leaked state the snapshot does not list)"""
        ns = self.ns
        BF, B = ns.bf3file, ns.bec2file
        key = bytes(range(16))
        comps = [MComp([(0xC3, b"\x02")], b"reference payload", None, False)]
        t3 = L.text_of([("a", "b")], L.serialise_bf3(comps, key))
        ck = bytes(16)
        t2 = L.text_of([], L.serialise_bec2(comps, key, [(1, container.wrap(ck, bytes(10) + key))]))
        # a file whose only block is an ECC block (model-built for recipient scalar 77, ephemeral scalar 5): state that only the
        # ECC / key-agreement path keeps shows up here
        t4 = L.text_of([], L.serialise_bec2(comps, key, [(3, ecies.make_block(1, 5, ecies.pub_of(77), key))]))
        self._t4 = t4
        tb = ("##Firmware: 1100 ID-engine 1.02.03\n##Creator: ref\n##Bf3Update: 1\n#>CHECK_FWVER VERSIONDESC=*\n#>SELECT FILTER=01 01 00 9B\n#>SELECT_IF PROTOCOL=BRP\n:0000FE00\n"
              + R2.data_line(1, 0x35, 0, b"abc")[0] + "\n:0002FF00\n#>CHECK_FWVER VERSIONDESC=*\n#>SELECT FILTER=01 02 80 0B 00 0C\n#>SELECT_IF PROTOCOL=BRP-SER\n:0003FE00\n" + R2.data_line(4, 0x84, 0, b"main")[0] + "\n:0005FF00\n")
        out = []

        def spoil(obj):
            """the caller goes on using (and changing) what a parser returned; a later parse of the same input must not see it"""
            r = repr(obj)
            try:
                f = getattr(obj, "bf3file", obj)
                if hasattr(f, "comments"):
                    f.comments["spoiled"] = "yes"
                    for c in f.components:
                        c.description[0x7E] = b"spoiled"
                        c.blob = b"spoiled"
                    f.components.append(f.components[0] if f.components else None)
                if hasattr(obj, "auth_blocks"):
                    obj.auth_blocks.clear()
                if hasattr(obj, "version") and hasattr(obj, "name"):
                    obj.version, obj.name = 99, "spoiled"
            except Exception:
                pass
            return r

        for fn in (lambda: spoil(BF.Bf3File.read_file(io.StringIO(t3), True, key)), lambda: spoil(B.Bec2File.read_file(io.StringIO(t2), [B.SoftwareCustKeyEncryptor(ck)])),
                   lambda: spoil(BF.Bf3File.bf2_import(io.StringIO(tb))), lambda: spoil(ns.configid.ConfigId.create_from_str("12345-0001-0002-03 n")), lambda: BF.pfid2_filter_to_str(b"\x01\x02\x80\x0b\x40\x0c"),
                   lambda: spoil(B.Bec2File.read_file(io.StringIO(t4), [B.EccDecryptor(1, GB.private_key_obj(ns, 77))]))):
            try:
                out.append(fn())
            except Exception as e:
                out.append("EXC " + type(e).__name__ + str(e)[:80])
        # reference inputs that FAIL: type and message of the error must not depend on what was parsed before either
        fails = []
        for fn in (lambda: BF.Bf3File.read_file(io.StringIO(t3[: len(t3) - 9]), True, key), lambda: B.Bec2File.read_file(io.StringIO(t2[: len(t2) // 2]), [B.SoftwareCustKeyEncryptor(ck)]),
                   lambda: B.Bec2File.read_file(io.StringIO(t2), []), lambda: BF.Bf3File.bf2_import(io.StringIO(":0000FE")), lambda: ns.bytes_reader.BytesReader(b"\x01", "ref").read(2),
                   lambda: ns.configid.ConfigId.create_from_str("not an identifier")):
            try:
                fn()
                fails.append("returned")
            except Exception as e:
                fails.append(type(e).__name__ + ":" + str(e)[:80])
        out.append("|".join(fails))
        return out

    def check_globals(self, rp):
        ref = self.reference_digest()
        if not hasattr(self, "ref0"):
            self.ref0 = ref
        self.ctx.bin("reference_inputs_rechecked")
        if ref != self.ref0:
            which = [i for i, (a, b) in enumerate(zip(ref, self.ref0)) if a != b]
            self.ctx.violation("result_for_fixed_input_depends_on_earlier_parses:" + ["bf3", "bec2", "bf2", "configid", "pfid2", "bec2_ecc", "failing_reference_inputs"][which[0]], {"now": ref[which[0]][:300], "first": self.ref0[which[0]][:300]}, rp)
            self.ref0 = ref
        now = global_state(self.ns)
        self.ctx.bin("global_state_compared")
        if now != self.snap:
            for k in now:
                if now[k] != self.snap.get(k):
                    self.ctx.violation("global_state_changed:" + k, {}, rp)
            self.snap = now

    def close(self):
        self.ctx.max_extra("max_steps_seen", self.budget.max_seen)
        self.budget.close()


# ------------------------------------------------------------------ valid material
class Material:
    """valid files of every format + the decryptor sets"""

    def __init__(self, ns, rng, variant):
        BF, B = ns.bf3file, ns.bec2file
        self.ns = ns
        v = variant
        comps = [MComp([(0xC3, b"\x02"), (0xC1, b"\x00")], rng.randbytes((5, 16, 33, 1)[v % 4]), None, False)]
        if v % 2:
            comps.append(MComp([(0xC3, b"\x03"), (0xC2, b"\x02"), (0xC1, b"\x03"), (0xC5, b"\x01")], rng.randbytes(20), 20, True))
        comments = [("FirmwareId", "1100"), ("Configuration", "12345-0001-0002-03 x")][: 1 + v % 2]
        self.case = G.Case(comments, comps)
        self.bf3_key = bytes(16) if v % 3 == 0 else rng.randbytes(16)
        self.bf3_text = L.text_of(comments, L.serialise_bf3(comps, self.bf3_key))
        kinds = [("cust",), ("update", "cust"), ("ecc",), ("cust", "ecc", "update")][v % 4]
        self.specs = GB.gen_blocks(rng, kinds)
        self.key = rng.randbytes(16)
        f = B.Bec2File(G.build_real(ns, self.case), GB.real_auth_blocks(ns, self.specs), self.key)
        self.bec2_binary = f.to_binary(GB.write_encryptors(ns, self.specs))
        self.bec2_text = L.text_of(comments, self.bec2_binary)
        # BF2
        class _C:
            def bin(self, *a):
                pass
        from . import c13

        hdr = c13.gen_header(rng, _C())
        secs = [c13.gen_section(rng, _C(), list(R2.TAGTYPES)[(v + k * 2) % 7]) for k in range(1 + v % 3)]
        for s in secs:
            s.lines = s.lines[:6]
        self.bf2_text = c13.render_file(rng, _C(), hdr, secs)

    def decryptor_sets(self, rng):
        ns, B = self.ns, self.ns.bec2file
        sets = {"none": [], "matching": GB.read_encryptors(ns, self.specs), "public_only_ecc": [B.EccEncryptor(s["sel"]) for s in self.specs if s["kind"] == "ecc"] or [B.EccEncryptor(0)]}
        wrong_priv, wrong_aes, wrong_code = [], [], []
        for s in self.specs:
            if s["kind"] == "ecc":
                wrong_priv.append(GB.encryptor_for(ns, dict(s, priv=rng.randrange(1, ecies.P256_N)), True))
            elif s["kind"] == "cust":
                wrong_aes.append(GB.encryptor_for(ns, dict(s, key=rng.randbytes(16)), True))
            else:
                wrong_code.append(GB.encryptor_for(ns, dict(s, code=rng.randbytes(8)), True))
        sets["wrong_private"] = wrong_priv or [B.EccDecryptor(0, GB.private_key_obj(ns, 5))]
        sets["wrong_aes_key"] = wrong_aes or [B.SoftwareCustKeyEncryptor(rng.randbytes(16))]
        sets["wrong_code"] = wrong_code or [B.ConfigSecurityCodeEncryptor(rng.randbytes(8))]
        sets["all"] = sets["matching"] + [B.SoftwareCustKeyEncryptor(rng.randbytes(16)), B.ConfigSecurityCodeEncryptor(bytes(8)), B.EccDecryptor(1, GB.private_key_obj(ns, 7)), B.EccEncryptor(2)]
        return sets


def entries_for(ns, mat, fmt, rng, scratch, light=False):
    """list of (entry name, callable(text)) for a format"""
    BF, B = ns.bf3file, ns.bec2file
    out = []
    if fmt == "bf3":
        key = mat.bf3_key
        out.append(("bf3_stream", lambda t: BF.Bf3File.read_file(io.StringIO(t), True, key)))
        out.append(("bf3_nomac", lambda t: BF.Bf3File.read_file(io.StringIO(t), False, key)))

        def via_path(t):
            p = os.path.join(scratch, "m.bf3")
            with open(p, "w", encoding="utf-8", newline="") as f:
                f.write(t)
            return BF.Bf3File.read_file(p, True, key)

        out.append(("bf3_path", via_path))
    elif fmt == "bec2":
        sets = mat.decryptor_sets(rng)
        has_ecc = any(s["kind"] == "ecc" for s in mat.specs)
        for name, encs in sets.items():
            out.append(("bec2_" + name, lambda t, encs=encs: B.Bec2File.read_file(io.StringIO(t), encs, True)))

        def bec2_path(t, encs=sets["matching"]):
            p = os.path.join(scratch, "m.bec2")
            with open(p, "w", encoding="utf-8", newline="") as f:
                f.write(t)
            return B.Bec2File.read_file(p, encs, False)

        out.append(("bec2_path_nomac", bec2_path))
        if light:
            keep = ("bec2_matching", "bec2_none") if has_ecc else ("bec2_matching", "bec2_wrong_aes_key", "bec2_wrong_code", "bec2_all")
            out = [e for e in out if e[0] in keep]
    elif fmt == "bf2":
        out.append(("bf2_enforce", lambda t: BF.Bf3File.bf2_import(io.StringIO(t))))
        out.append(("bf2_no_enforce", lambda t: BF.Bf3File.bf2_import(io.StringIO(t), False)))

        def bf2_path(t):
            p = os.path.join(scratch, "m.bf2")
            with open(p, "w", encoding="utf-8", newline="") as f:
                f.write(t)
            return BF.Bf3File.bf2_import(p)

        out.append(("bf2_path", bf2_path))
    return out


def run_mutate(ns, ctx, spec):
    rng = ctx.rng
    scratch = tempfile.mkdtemp(prefix="c14-", dir=os.environ.get("VERIF_SCRATCH"))
    mon = Monitor(ns, ctx)
    try:
        for fi in range(spec["files"]):
            variant = spec["i"] + NSH * fi
            mat = Material(ns, rng, variant)
            fmt = ("bf3", "bec2", "bf2", "bec2")[variant % 4] if variant % 8 != 7 else "bf2"
            text = {"bf3": mat.bf3_text, "bec2": mat.bec2_text, "bf2": mat.bf2_text}[fmt]
            ents = entries_for(ns, mat, fmt, rng, scratch, light=True)
            rpb = {"kind": "mutate", "fmt": fmt, "variant": variant}
            # the valid file itself
            for name, fn in entries_for(ns, mat, fmt, rng, scratch):
                mon.call(name, lambda: fn(text), text, dict(rpb, text=text))
            # ALL prefixes
            for cut in range(len(text)):
                t = text[:cut]
                for name, fn in ents[: 2 if fmt == "bec2" else 3]:
                    ctx.distinct(name, t)
                    mon.call(name, lambda: fn(t), t, dict(rpb, text=t, entry=name))
            ctx.bin("all_prefixes")
            # ALL single-character deletions and replacements
            for pos in range(len(text)):
                cands = [text[:pos] + text[pos + 1 :]] + [text[:pos] + a + text[pos + 1 :] for a in ALPHABET if a != text[pos]]
                for k, t in enumerate(cands):
                    name, fn = ents[(pos + k) % len(ents)]
                    ctx.distinct(name, t)
                    mon.call(name, lambda: fn(t), t, dict(rpb, text=t, entry=name))
            ctx.bin("all_single_char_mutations")
            # line swaps / duplications / token insertions / multi mutations
            lines = text.split("\n")
            tokens = ["#>REBOOT", "#>CHECK_FWVER VERSIONDESC=*", "##CRC: 0x12", "##SELECT: x", "#>SELECT FILTER=01", "#>SELECT_IF PROTOCOL=FOO", ":0000FF00", ":0000FE00", ":00003503", "k: v", "", ":", "##Firmware: 1", "#>CRC A=B", "##REBOOT: 1", "#>Firmware X=1", "##Creator: a", "#>", "##"]
            for a in range(len(lines)):
                for b in (a + 1, (a * 7 + 3) % len(lines)):
                    if b >= len(lines) or a == b:
                        continue
                    l2 = list(lines)
                    l2[a], l2[b] = l2[b], l2[a]
                    t = "\n".join(l2)
                    name, fn = ents[(a + b) % len(ents)]
                    ctx.bin("line_swap")
                    mon.call(name, lambda: fn(t), t, dict(rpb, text=t, entry=name))
                l2 = lines[: a + 1] + lines[a:]
                t = "\n".join(l2)
                name, fn = ents[a % len(ents)]
                ctx.bin("line_duplicate")
                mon.call(name, lambda: fn(t), t, dict(rpb, text=t, entry=name))
                for tk in tokens if fmt == "bf2" else tokens[-8:]:
                    t = "\n".join(lines[:a] + [tk] + lines[a:])
                    name, fn = ents[(a + len(tk)) % len(ents)]
                    ctx.bin("token_insert")
                    mon.call(name, lambda: fn(t), t, dict(rpb, text=t, entry=name))
            for _ in range(300 if ctx.tier == "quick" else 3000):
                t = list(text)
                for _k in range(rng.randrange(2, 6)):
                    if not t:
                        break
                    p = rng.randrange(len(t))
                    op = rng.randrange(3)
                    if op == 0:
                        del t[p]
                    elif op == 1:
                        t[p] = rng.choice(ALPHABET + ["A", "1", "#", ">", "="])
                    else:
                        t.insert(p, rng.choice(ALPHABET + ["A", "1", "#", ">", "="]))
                t = "".join(t)
                name, fn = ents[rng.randrange(len(ents))]
                ctx.bin("multi_mutation")
                ctx.distinct(name, t)
                mon.call(name, lambda: fn(t), t, dict(rpb, text=t, entry=name))
            mon.check_globals(rpb)
            if fi == 0:
                ctx.sample({"fmt": fmt, "valid_text_head": text[:200], "len": len(text)})
    finally:
        mon.close()
        import shutil

        shutil.rmtree(scratch, ignore_errors=True)


DEEP = ["empty_ecc_block", "short_ecc_block", "ecc_block_off_curve_point", "empty_cust_block", "cust_block_not_block_aligned", "cust_block_short_payload", "update_block_short_payload",
        "unknown_tag_block", "zero_stored_length", "enc_tag_on_unaligned_payload", "enc_tag_wrong_length_value", "reboot_before_any_data", "check_fwver_twice_before_data", "empty_section",
        "data_line_shorter_than_header", "select_as_comment", "loader_without_interface", "unknown_protocol", "filter_with_dangling_continuation", "peripheral_multi_entry_filter",
        "versiondesc_too_short", "firmware_comment_garbage", "crc_not_hex", "comment_line_two_colons", "instruction_without_equals", "pfid2_direct", "configid_direct", "block_len_past_eof",
        "huge_dirsize", "terminator_missing"]


def deep_cases(ns, rng, name):
    """-> list of (fmt, text, note) reaching a deep path; MACs/frames are valid where needed"""
    comps = [MComp([(0xC3, b"\x02")], rng.randbytes(10), None, False)]
    key = rng.randbytes(16)
    ck = rng.randbytes(16)
    code = rng.randbytes(8)
    priv = rng.randrange(1, ecies.P256_N)

    def bec2(blocks, body_key=key, comps_=comps):
        return ("bec2", L.text_of([], L.serialise_bec2(comps_, body_key, blocks)))

    good_cust = (1, container.wrap(ck, bytes(10) + key))
    good_upd = (2, container.wrap(container.security_code_key(code), key + b"\x05"))
    extra = {"ck": ck, "code": code, "priv": priv}
    if name == "empty_ecc_block":
        return [bec2([(3, b"")]), bec2([good_cust, (3, b"")]), bec2([(3, b""), good_cust])], extra
    if name == "short_ecc_block":
        blk = ecies.make_block(0, 5, ecies.pub_of(priv), key)
        return [bec2([(3, blk[:n])]) for n in (1, 2, 3, 34, 66, 67, 81)] + [bec2([(3, blk + b"\0")])], extra
    if name == "ecc_block_off_curve_point":
        blk = bytearray(ecies.make_block(0, 5, ecies.pub_of(priv), key))
        out = []
        for pos in (2, 33, 34, 65):
            b2 = bytearray(blk)
            b2[pos] ^= 1
            out.append(bec2([(3, bytes(b2))]))
        b2 = bytearray(blk)
        b2[1] = 3
        out.append(bec2([(3, bytes(b2))]))
        out.append(bec2([(3, bytes(blk[:2]) + bytes(64) + bytes(blk[66:]))]))
        out.append(bec2([(3, bytes(blk[:2]) + b"\xff" * 64 + bytes(blk[66:]))]))
        return out, extra
    if name == "empty_cust_block":
        return [bec2([(1, b"")]), bec2([(2, b"")]), bec2([(1, b""), good_upd])], extra
    if name == "cust_block_not_block_aligned":
        return [bec2([(1, good_cust[1][:n])]) for n in (1, 15, 17, 31)] + [bec2([(2, good_upd[1] + b"\0")])], extra
    if name == "cust_block_short_payload":
        return [bec2([(1, container.wrap(ck, bytes(n)))]) for n in (0, 1, 5, 15, 16, 25, 27, 40)], extra
    if name == "update_block_short_payload":
        return [bec2([(2, container.wrap(container.security_code_key(code), bytes(n)))]) for n in (0, 1, 15, 16, 18, 40)], extra
    if name == "unknown_tag_block":
        return [bec2([(t, rng.randbytes(5)), good_cust]) for t in (0, 4, 0x7F, 0xFF)] + [bec2([(9, b"")])], extra
    if name == "zero_stored_length":
        s = __import__("bvm.gen.edits", fromlist=["Spec"]).Spec(comps, key)
        s.payloads[0] = b""
        out = [("bf3", L.text_of([], s.assemble()))]
        s = __import__("bvm.gen.edits", fromlist=["Spec"]).Spec(comps, key)
        s.payloads[0] = b""
        s.entries[0]["declared"] = 0
        out.append(("bf3", L.text_of([], s.assemble())))
        extra["bf3_key"] = key
        return out, extra
    if name in ("enc_tag_on_unaligned_payload", "enc_tag_wrong_length_value"):
        out = []
        vals = [b"\x02"] if name == "enc_tag_on_unaligned_payload" else [b"", b"\x02\x00", b"\x00\x02", b"\x03"]
        for v in vals:
            for ln in (1, 15, 17, 16):
                c = [MComp([(0xC2, v)], rng.randbytes(ln), None, False)]
                out.append(("bf3", L.text_of([], L.serialise_bf3(c, key))))
        extra["bf3_key"] = key
        return out, extra
    if name == "block_len_past_eof":
        b = L.serialise_bec2(comps, key, [good_cust])
        out = []
        for cut in (6, 7, 8, 20, len(L.BEC2_SIG) + 2 + len(good_cust[1]), len(L.BEC2_SIG) + 2 + len(good_cust[1]) + 1):
            out.append(("bec2", L.text_of([], b[:cut])))
        return out, extra
    if name == "terminator_missing":
        hdr = L.BEC2_SIG + bytes((1, len(good_cust[1]))) + good_cust[1]
        return [("bec2", L.text_of([], hdr)), ("bec2", L.text_of([], hdr + b"\x00")), ("bec2", L.text_of([], L.BEC2_SIG))], extra
    if name == "huge_dirsize":
        b = bytearray(L.serialise_bf3(comps, key))
        out = []
        for v in (b"\xff\xff\xff\xff", b"\x7f\xff\xff\xff", b"\x00\x00\x00\x00", b"\x00\x01\x00\x00"):
            b2 = bytearray(b)
            b2[5:9] = v
            out.append(("bf3", L.text_of([], bytes(b2))))
        extra["bf3_key"] = key
        return out, extra
    # ---- BF2 deep paths ------------------------------------------------------------------------------
    hdr = "##Firmware: 1100 ID-engine 1.02.03\n##Bf3Update: 1\n"
    d35 = lambda ndx, ofs, p: R2.data_line(ndx, 0x35, ofs, p)[0]
    sec = lambda base, body: "#>CHECK_FWVER VERSIONDESC=*\n#>SELECT FILTER=01 01 00 9B\n#>SELECT_IF PROTOCOL=BRP\n:0000FE00\n" + R2.data_line(1, base, 0, body)[0] + "\n:0002FF00\n"
    t = {
        "reboot_before_any_data": [hdr + "#>REBOOT\n" + sec(0x35, b"abc"), "#>REBOOT\n", hdr + "##REBOOT: 1\n"],
        "check_fwver_twice_before_data": [hdr + "#>CHECK_FWVER VERSIONDESC=*\n#>CHECK_FWVER VERSIONDESC=*\n" + sec(0x35, b"abc")],
        "empty_section": [hdr + ":0000FE00\n:0001FF00\n#>REBOOT\n", hdr + sec(0x35, b"")],
        "data_line_shorter_than_header": [hdr + "#>CHECK_FWVER VERSIONDESC=*\n:0000FE00\n:000035\n:0002FF00\n", hdr + ":00\n", hdr + ":000035050A0000\n:0002FF00\n", hdr + ":0000350100\n:0000FF00\n", hdr + ":0000350102\n:0000FF00\n", hdr + ":000035020100\n:0000FF00\n"],
        "select_as_comment": [hdr + "##SELECT: 01 01 00 9B\n" + ":0000FE00\n" + d35(1, 0, b"x") + "\n:0002FF00\n", hdr + "##CHECK_FWVER: x\n:0000FE00\n" + d35(1, 0, b"x") + "\n:0002FF00\n", hdr + "##SELECT_IF: BRP\n:0000FE00\n" + d35(1, 0, b"x") + "\n:0002FF00\n", hdr + "#>Firmware A=1\n:0000FE00\n" + d35(1, 0, b"x") + "\n:0002FF00\n", hdr + "#>CRC A=1\n:0000FE00\n" + d35(1, 0, b"x") + "\n:0002FF00\n", hdr + "#>Creator\n#>Bf3Update\n:0000FE00\n" + d35(1, 0, b"x") + "\n:0002FF00\n"],
        "loader_without_interface": [hdr + "#>CHECK_FWVER VERSIONDESC=*\n#>SELECT_IF PROTOCOL=*\n:0000FE00\n" + R2.data_line(1, 0x70, 0, b"abc")[0] + "\n:0002FF00\n", hdr + ":0000FE00\n" + R2.data_line(1, 0x83, 0, b"abc")[0] + "\n:0002FF00\n"],
        "unknown_protocol": [hdr + "#>SELECT_IF PROTOCOL=FOO\n:0000FE00\n" + d35(1, 0, b"x") + "\n:0002FF00\n", hdr + "#>SELECT_IF X=1\n:0000FE00\n" + d35(1, 0, b"x") + "\n:0002FF00\n"],
        "filter_with_dangling_continuation": [hdr + "#>SELECT FILTER=01 01 80 9B\n#>SELECT_IF PROTOCOL=BRP\n:0000FE00\n" + R2.data_line(1, 0x84, 0, b"abc")[0] + "\n:0002FF00\n", hdr + "#>SELECT FILTER=02 01 00 9B\n:0000FE00\n" + R2.data_line(1, 0x84, 0, b"abc")[0] + "\n:0002FF00\n", hdr + "#>SELECT FILTER=\n:0000FE00\n" + R2.data_line(1, 0x84, 0, b"abc")[0] + "\n:0002FF00\n", hdr + "#>SELECT FILTER=01 00\n:0000FE00\n" + R2.data_line(1, 0x84, 0, b"abc")[0] + "\n:0002FF00\n"],
        "peripheral_multi_entry_filter": [hdr + "#>SELECT FILTER=01 02 80 9B 00 9C\n:0000FE00\n" + d35(1, 0, b"x") + "\n:0002FF00\n", hdr + "#>SELECT FILTER=01\n:0000FE00\n" + d35(1, 0, b"x") + "\n:0002FF00\n", hdr + "#>SELECT X=1\n:0000FE00\n" + d35(1, 0, b"x") + "\n:0002FF00\n"],
        "versiondesc_too_short": [hdr + "#>CHECK_FWVER VERSIONDESC=%s\n:0000FE00\n" % v + d35(1, 0, b"x") + "\n:0002FF00\n" for v in ("", "01", "01 02", "01 02 05 01", "zz", "01 02 00")] + [hdr + "#>CHECK_FWVER\n:0000FE00\n" + d35(1, 0, b"x") + "\n:0002FF00\n"],
        "firmware_comment_garbage": ["##Firmware: %s\n##Bf3Update: 1\n:0000FE00\n" % v + R2.data_line(1, 0x84, 0, b"abc")[0] + "\n:0002FF00\n" for v in ("", "x", "1100", "abcd ID-engine 1.02.03", "1100 ID-engine 1.0x.03", "1100 ID-engine 999.2.3", "1100 ID-engine 1.02", "1100 ID-engine -1.2.3", "99999 ID-engin 1.02.03", "1100 ID-engine 1..2.3 ")],
        "crc_not_hex": [hdr + "##CRC: %s\n:0000FE00\n" % v + d35(1, 0, b"x") + "\n:0002FF00\n" for v in ("", "0x", "0xZZ", "12", "0x1FFFFFFFF", "0x-1")],
        "comment_line_two_colons": [hdr + "##A: b: c\n", hdr + "##nocolon\n", "##\n", "##:\n" + hdr + sec(0x35, b"x")],
        "instruction_without_equals": [hdr + "#>SELECT FILTER\n", hdr + "#>SELECT A=B=C\n", hdr + "#>\n", hdr + "#> \n", hdr + "#>SELECT FILTER=01 01 00 9B,, X=1\n" + sec(0x35, b"x"), hdr + "#>X ,\n"],
    }
    if name in t:
        return [("bf2", x) for x in t[name]], extra
    if name == "pfid2_direct":
        cases = [b"", b"\x01", b"\x01\x00", b"\x01\x01", b"\x01\x01\x00", b"\x01\x01\x00\x9b", b"\x01\x02\x80\x9b\x40\x9c", b"\x01\x01\x80\x9b", b"\x02\x01\x00\x9b", b"\x01\xff" + bytes(510)] + [rng.randbytes(rng.randrange(0, 12)) for _ in range(40)] + [bytes((1, k)) + rng.randbytes(2 * k) for k in range(0, 6) for _ in range(5)]
        return [("pfid2", c) for c in cases], extra
    if name == "configid_direct":
        base = ["12345-0001-0002-03 name", "name (version 07)", "{}", "{0}", "Door {A} (version 7)", "cfg {baltech.x} (v1)", "{generic[99]}", "%s %d %(x)s", "12345-0001-0002-03 {name}", "{", "}", "", "12345-0001-0002-03", "x", "(version 07)", " (version 07)", "12345-0001-0002-0", "１２３４５-0001-0002-03", "12345-0001-0002-03\n", "a\n (version 07)", "\x00", "9" * 5000]
        # long unbroken / repetitive names followed by something that stops the name short of the end of the text: inputs
        # on which an ambiguous pattern backtracks super-linearly
        for run in (24, 32, 48, 64, 200):
            for tail in (" ", "\t", " \r\n", "\n", " (version 7)", " (version 07) ", ")"):
                for word in ("a" * run, "ab " * (run // 3), "a " * (run // 2), "-" * run, "0" * run, "( " * (run // 2)):
                    base.append("12345-0001-0002-03 " + word + tail)
                    base.append(word + " (version 07)" + tail)
                    base.append(word + tail)
        for _ in range(60):
            s = list(rng.choice(base[:2]))
            for _k in range(rng.randrange(1, 4)):
                if s:
                    s[rng.randrange(len(s))] = rng.choice("0-9( )v\n١x{}%")
            base.append("".join(s))
        return [("configid", c) for c in base], extra
    raise ValueError(name)


def run_deep(ns, ctx, spec):
    BF, B = ns.bf3file, ns.bec2file
    rng = ctx.rng
    mon = Monitor(ns, ctx)
    try:
        for j in range(spec["n"]):
            name = DEEP[(spec["i"] + 8 * j) % len(DEEP)]
            cases, x = deep_cases(ns, rng, name)
            ctx.bin("deep:" + name)
            for fmt, text in cases:
                rp = {"kind": "deep", "deep": name, "fmt": fmt, "text": text if isinstance(text, str) else text.hex(), "ck": x["ck"].hex(), "code": x["code"].hex(), "priv": hex(x["priv"]), "bf3_key": x.get("bf3_key", b"").hex()}
                ctx.distinct(fmt, text)
                if fmt == "bec2":
                    sets = {
                        "matching": [B.SoftwareCustKeyEncryptor(x["ck"]), B.ConfigSecurityCodeEncryptor(x["code"]), B.EccDecryptor(0, GB.private_key_obj(ns, x["priv"]))],
                        "none": [],
                        "public_only_ecc": [B.EccEncryptor(0)],
                        "wrong_private": [B.EccDecryptor(0, GB.private_key_obj(ns, x["priv"] ^ 2 or 3))],
                    }
                    for sn, encs in sets.items():
                        mon.call("bec2_" + sn, lambda: B.Bec2File.read_file(io.StringIO(text), encs, True), text, dict(rp, entry="bec2_" + sn))
                elif fmt == "bf3":
                    k = x.get("bf3_key", bytes(16))
                    mon.call("bf3_stream", lambda: BF.Bf3File.read_file(io.StringIO(text), True, k), text, dict(rp, entry="bf3_stream"))
                    mon.call("bf3_nomac", lambda: BF.Bf3File.read_file(io.StringIO(text), False, k), text, dict(rp, entry="bf3_nomac"))
                elif fmt == "bf2":
                    mon.call("bf2_enforce", lambda: BF.Bf3File.bf2_import(io.StringIO(text)), text, dict(rp, entry="bf2_enforce"))
                    mon.call("bf2_no_enforce", lambda: BF.Bf3File.bf2_import(io.StringIO(text), False), text, dict(rp, entry="bf2_no_enforce"))
                elif fmt == "pfid2":
                    mon.call("pfid2", lambda: BF.pfid2_filter_to_str(text), text, dict(rp, entry="pfid2"))
                else:
                    mon.call("configid", lambda: ns.configid.ConfigId.create_from_str(text), text, dict(rp, entry="configid"))
            mon.check_globals({"kind": "deep", "deep": name})
        ctx.sample({"kind": "deep", "classes": DEEP[:6]})
    finally:
        mon.close()


GROWTH_SHAPES = ["bf2_blob_lines_all_non_contiguous", "bf2_memory_image_lines_all_non_contiguous", "bf3_many_components", "bf3_many_comment_lines", "bf3_one_long_payload", "bec2_many_unknown_blocks", "configid_long_name"]


def growth_input(ns, rng, shape, n):
    """an input of 'size' n of the given shape -> (entry name, callable, text)"""
    BF, B = ns.bf3file, ns.bec2file
    if shape.startswith("bf2_"):
        base = 0x35 if "blob" in shape else 0x84
        lines = ["##Firmware: 1100 ID-engine 1.02.03", "##Bf3Update: 1", "#>CHECK_FWVER VERSIONDESC=*", "#>SELECT FILTER=01 01 00 9B", "#>SELECT_IF PROTOCOL=*", ":0000FE00"]
        for i in range(n):
            adr = i * 0x20
            lines.append(R2.data_line(i, base + (adr >> 16), adr & 0xFFFF, bytes((i & 0xFF,)) * 8)[0])
        lines.append(":0000FF00")
        text = "\n".join(lines) + "\n"
        return "bf2_enforce", (lambda: BF.Bf3File.bf2_import(io.StringIO(text))), text
    key = bytes(range(16))
    if shape == "bf3_many_components":
        comps = [MComp([(1, bytes((j & 0xFF, j >> 8)))], bytes((1 + j % 250,)) * 3, None, False) for j in range(n)]
        text = L.text_of([("a", "b")], L.serialise_bf3(comps, key))
    elif shape == "bf3_many_comment_lines":
        comps = [MComp([(1, b"x")], b"payload", None, False)]
        text = L.text_of([("Key%d" % j, "value %d" % j) for j in range(n)], L.serialise_bf3(comps, key))
    elif shape == "bf3_one_long_payload":
        comps = [MComp([(1, b"x")], rng.randbytes(40 * n), None, False)]
        text = L.text_of([], L.serialise_bf3(comps, key))
    elif shape == "bec2_many_unknown_blocks":
        comps = [MComp([(1, b"x")], b"payload", None, False)]
        ck = bytes(16)
        blocks = [(0x40 + j % 0x80, bytes((j & 0xFF,)) * 20) for j in range(n)] + [(1, container.wrap(ck, bytes(10) + key))]
        text = L.text_of([], L.serialise_bec2(comps, key, blocks))
        return "bec2_matching", (lambda: B.Bec2File.read_file(io.StringIO(text), [B.SoftwareCustKeyEncryptor(ck)], True)), text
    elif shape == "configid_long_name":
        text = "12345-0001-0002-03 " + "long name " * n
        return "configid", (lambda: ns.configid.ConfigId.create_from_str(text)), text
    else:
        raise ValueError(shape)
    return "bf3_stream", (lambda: BF.Bf3File.read_file(io.StringIO(text), True, key)), text


def run_growth(ns, ctx, spec):
    """'never hangs' for LARGE inputs: the logical work of a parser on inputs of one shape and sizes N, 2N, 4N must grow about
    linearly (x4); a quadratic algorithm shows x16.  Self-calibrating: no absolute budget, no wall clock."""
    rng = ctx.rng
    shape = spec["shape"]
    base_n = {"bf2_blob_lines_all_non_contiguous": 1500, "bf2_memory_image_lines_all_non_contiguous": 1500, "bf3_many_components": 400, "bf3_many_comment_lines": 2000, "bf3_one_long_payload": 400,
              "bec2_many_unknown_blocks": 300, "configid_long_name": 2000}[shape] * spec["scale"]
    budget = StepBudget()
    steps = []
    try:
        for mult in (1, 2, 4):
            entry, fn, text = growth_input(ns, rng, shape, base_n * mult)
            ctx.ev()
            ctx.bin("entry:" + entry)
            ctx.bin("growth:" + shape)
            ctx.distinct("growth", shape, mult, len(text))
            outcome = "returned"
            signal.signal(signal.SIGVTALRM, _on_vtalrm)
            signal.setitimer(signal.ITIMER_VIRTUAL, 600)
            try:
                budget.run(fn, 10**12, len(text))
            except CpuBudgetExceeded:
                ctx.violation("cpu_time_budget_exceeded:" + entry, {"shape": shape, "size": base_n * mult, "len": len(text), "budget_s": 600}, {"kind": "growth", "shape": shape})
                return
            except Exception as e:
                outcome = type(e).__name__
                if not isinstance(e, (ns.error.FormatError, ValueError)):
                    f, fu = raising_site(e)
                    ctx.violation("unrelated_exception:%s:%s:%s:%s" % (entry.split("_")[0], type(e).__name__, f, fu), {"entry": entry, "shape": shape, "len": len(text)}, {"kind": "growth", "shape": shape})
            finally:
                signal.setitimer(signal.ITIMER_VIRTUAL, 0)
            ctx.mon("step_budget_run")
            steps.append((base_n * mult, len(text), budget.steps, outcome))
        ratio = steps[2][2] / max(1, steps[0][2])
        ctx.max_extra("largest_growth_ratio_steps_4N_over_N_x100", int(ratio * 100))
        ctx.sample({"kind": "growth", "shape": shape, "sizes_lens_steps": steps, "ratio_4N_over_N": round(ratio, 2)})
        if ratio > 9 and steps[2][2] > 200000:
            ctx.violation("super_linear_work_growth:" + shape, {"sizes_lens_steps": steps, "ratio_4N_over_N": round(ratio, 2)}, {"kind": "growth", "shape": shape})
    finally:
        budget.close()


def run_firstop(ns, ctx, spec):
    """the FIRST key agreement of the process is a failing one: a BEC2 file read with a decryptor whose private key lies on
    another curve (P-384) or is for another selector; afterwards valid files must read as in any other process"""
    BF, B = ns.bf3file, ns.bec2file
    key = bytes(range(16))
    comps = [MComp([(0xC3, b"\x02")], b"reference payload", None, False)]
    t4 = L.text_of([], L.serialise_bec2(comps, key, [(3, ecies.make_block(1, 5, ecies.pub_of(77), key))]))
    mon = None
    K = ns.keys
    foreign = ns.plugin.PrivateEccKeyProxy.create_from_der_fmt(K.SigningKey.from_secret_exponent(12345, curve=ns.curves.NIST384p).to_der())
    ctx.ev()
    ctx.bin("first_key_agreement_of_the_process_uses_a_key_of_another_curve")
    ctx.bin("entry:bec2_wrong_private")
    try:
        B.Bec2File.read_file(io.StringIO(t4), [B.EccDecryptor(1, foreign)])
        ctx.bin("returned_normally")
    except (ns.error.FormatError, ValueError) as e:
        ctx.exc(e)
        ctx.bin("raised_value_error")
    except Exception as e:
        f, fu = raising_site(e)
        ctx.violation("unrelated_exception:bec2:%s:%s:%s" % (type(e).__name__, f, fu), {"entry": "bec2_wrong_private", "decryptor": "private key on NIST384p"}, {"kind": "firstop"})
    # now the ordinary monitor (its constructor takes the reference digests: the valid ECC file must read)
    mon = Monitor(ns, ctx)
    try:
        ctx.ev()
        try:
            r = B.Bec2File.read_file(io.StringIO(t4), [B.EccDecryptor(1, GB.private_key_obj(ns, 77))])
            ok = bytes(r.session_key) == key
        except Exception as e:
            ok = False
            ctx.exc(e)
        if not ok:
            ctx.violation("result_for_fixed_input_depends_on_earlier_parses:bec2_ecc", {"after": "a failed read with a decryptor key on another curve as first key agreement of the process"}, {"kind": "firstop"})
        mon.check_globals({"kind": "firstop"})
        ctx.sample({"kind": "firstop", "valid_ecc_file_read_after_failed_first_agreement": ok})
    finally:
        mon.close()


def run_random(ns, ctx, spec):
    BF, B = ns.bf3file, ns.bec2file
    rng = ctx.rng
    mon = Monitor(ns, ctx)
    scratch = tempfile.mkdtemp(prefix="c14-", dir=os.environ.get("VERIF_SCRATCH"))
    try:
        encs = [B.SoftwareCustKeyEncryptor(bytes(16)), B.ConfigSecurityCodeEncryptor(bytes(8)), B.EccDecryptor(0, GB.private_key_obj(ns, 12345))]
        for i in range(spec["n"]):
            r = rng.random()
            if r < 0.4:
                n = rng.randrange(0, 200)
                body = rng.randbytes(n)
                pre = rng.choice((b"", L.BF3_SIG, L.BEC2_SIG, L.BF3_SIG + b"\x00\x00\x00", L.BEC2_SIG + b"\x01", L.BEC2_SIG + b"\x03", L.BEC2_SIG + b"\x02\x10"))
                text = rng.choice(("", "k: v\n", "a\n")) + "\n" + (pre + body).hex().upper()
                ctx.bin("random_hex")
            else:
                n = rng.randrange(0, 120)
                alphabet = rng.choice(("0123456789ABCDEF\n: ", "#>:=, \nABCxyz0123456789", "".join(chr(rng.randrange(1, 0x3000)) for _ in range(20)) + "\n:#"))
                text = "".join(rng.choice(alphabet) for _ in range(n))
                ctx.bin("random_text")
            rp = {"kind": "random", "text": text}
            ctx.distinct(text)
            k = i % 6
            if k == 0:
                mon.call("bf3_stream", lambda: BF.Bf3File.read_file(io.StringIO(text)), text, dict(rp, entry="bf3_stream"))
            elif k == 1:
                mon.call("bec2_all", lambda: B.Bec2File.read_file(io.StringIO(text), encs), text, dict(rp, entry="bec2_all"))
            elif k == 2:
                mon.call("bf2_enforce", lambda: BF.Bf3File.bf2_import(io.StringIO(text)), text, dict(rp, entry="bf2_enforce"))
            elif k == 3:
                mon.call("configid", lambda: ns.configid.ConfigId.create_from_str(text), text, dict(rp, entry="configid"))
            elif k == 4:
                raw = text.encode("utf-8", "replace")[:40]
                mon.call("pfid2", lambda: BF.pfid2_filter_to_str(raw), text, dict(rp, entry="pfid2", raw=raw.hex()))
            else:
                p = os.path.join(scratch, "r.txt")
                with open(p, "wb") as f:
                    f.write(rng.randbytes(rng.randrange(0, 80)) if i % 12 == 5 else text.encode("utf-8"))
                mon.call("bf3_path", lambda: BF.Bf3File.read_file(p), text, dict(rp, entry="bf3_path"))
            if i % 500 == 0:
                mon.check_globals(rp)
        mon.check_globals({"kind": "random"})
        ctx.sample({"kind": "random", "text": text[:80]})
    finally:
        mon.close()
        import shutil

        shutil.rmtree(scratch, ignore_errors=True)


def run_shard(spec, ctx):
    ns = load()
    k = spec["kind"]
    if k == "mutate":
        run_mutate(ns, ctx, spec)
    elif k == "deep":
        run_deep(ns, ctx, spec)
    elif k == "growth":
        run_growth(ns, ctx, spec)
    elif k == "firstop":
        run_firstop(ns, ctx, spec)
    else:
        run_random(ns, ctx, spec)


def replay(rec, ctx):
    ns = load()
    k = rec.get("kind")
    if k == "firstop":
        run_firstop(ns, ctx, {})
    elif k == "growth":
        run_growth(ns, ctx, {"shape": rec["shape"], "scale": 1})
    elif k == "deep":
        run_deep(ns, ctx, {"n": len(DEEP), "i": 0})
    elif k == "random":
        run_random(ns, ctx, {"n": 600})
    else:
        run_mutate(ns, ctx, {"i": rec.get("variant", 0) % NSH, "files": 1})
