"""C01 - BF3 write-then-read returns the same file (stream and path I/O, MAC on/off).

Oracle: structural equality of the object read back with the model of what was
written (the real object is built from the model, written, and never trusted again).
"""
import gc
import io
import os
import tempfile
import warnings

from ..ctx import fmt_exc
from ..gen import files as G
from ..load import load
from ..refs.layout import MComp

ID = "C01"
LEVEL = "exploration"
RULE = (
    "case = (comment map, ordered plain components with tag lists, payload, declared length, session key, I/O mode, MAC checking); "
    "directed: every payload length 1..50 and the lengths around multiples of 16/40/256/4096, 0..33 trailing zero bytes, all-zero / all-FF "
    "payloads, description sizes up to exactly 210 bytes and one over, 0 components, 0 comments; seeded random cases on top. Each case is "
    "written by the real writer and read by the real reader through a StringIO and through a file path (file bytes inspected for CRLF), "
    "with MAC checking on and off. distinct = digest of (case, key, mode); non-trivial = at least one component or one comment"
)
ASSUMPTIONS = [
    "plain components never carry the tag ENC=session-key (a component that says 'plain' to the writer and 'encrypted' to the reader is self-contradictory)",
    "comment keys without ':' / line breaks, values without surrounding white space / line breaks (stated domain); Unicode line separators are not generated",
    "the writer raising (e.g. description over 210 bytes) = object not accepted, not a violation",
    "shards run with PYTHONUTF8=1 so that path I/O of non-ASCII comments does not depend on the sandbox locale",
]
TIMEOUT = {"quick": 900, "thorough": 6 * 3600}
OPTIMIZED_SHARDS = ("rand03",)  # these shards also run under python -O
NSH = 16


def plan(tier, seed):
    jobs = [{"name": "directed", "spec": {"kind": "directed"}}]
    n = 4000 if tier == "quick" else 150000
    for i in range(NSH):
        jobs.append({"name": "rand%02d" % i, "spec": {"kind": "rand", "n": n // NSH, "big": i < 2 and tier != "quick"}})
    for i in range(2 if tier == "quick" else 8):
        jobs.append({"name": "threads%02d" % i, "spec": {"kind": "threads", "rounds": 4 if tier == "quick" else 60}})
    # the same random workload in a process whose default text encoding is ASCII (C locale, UTF-8 mode off): path I/O then
    # either refuses a non-ASCII comment or reads back what was written
    for i in range(1 if tier == "quick" else 4):
        jobs.append({"name": "clocale%02d" % i, "env": {"LC_ALL": "C", "LANG": "C", "PYTHONUTF8": "0", "PYTHONCOERCECLOCALE": "0"}, "spec": {"kind": "rand", "n": (n // NSH), "big": False, "ascii_locale": True}})
    return jobs


def mandatory_bins(tier):
    b = ["len_mod16_%d" % i for i in range(16)] + ["len_mod40_%d" % i for i in range(40)]
    b += ["trailing_zeros_%d" % z for z in (0, 1, 2, 15, 16, 17)]
    b += ["zero_components", "zero_comments", "io_stream", "io_path", "mac_on", "mac_off", "default_key", "key_ends_00", "declared_lt_len", "declared_1",
          "desc_210_bytes", "desc_211_bytes_refused", "tag_order_not_sorted", "crlf_in_path_file", "all_zero_payload", "cross_mode_path_written_stream_read", "rewrite_after_in_place_mutation", "enc_tag_other_value_on_plain_component", "stream_positioned_after_other_content", "comment_with_unicode_line_boundary_character", "same_component_object_listed_twice", "write_and_read_by_concurrent_threads", "path_target_holds_an_older_longer_file", "default_text_encoding_is_ascii", "components_given_as_tuple_or_iterator"]
    return b


SPECIAL_CHARS = ["\x0b", "\x0c", "\x1c", "\x1d", "\x1e", "\x85", "\u2028", "\u2029"]


def check_case(ns, ctx, case, key, scratch, modes=("stream", "path"), macs=(True, False), special=False, dup=False):
    BF = ns.bf3file
    orig_case = case
    if dup:
        # the same component OBJECT at two positions of the list (one image for two slots); the expected file simply has it twice
        j = len(case.comps) // 2
        case = G.Case(case.comments, list(case.comps) + [case.comps[j]])
    rp = {"case": orig_case.to_json(), "key": key.hex(), "dup": dup, "special": special}
    ctx.distinct(case.digest_parts(), key)
    for c in case.comps:
        ln = len(c.blob)
        ctx.bin("len_mod16_%d" % (ln % 16))
        ctx.bin("len_mod40_%d" % (ln % 40))
        tz = G.trailing_zeros(c.blob)
        if tz in (0, 1, 2, 15, 16, 17) and tz < ln:
            ctx.bin("trailing_zeros_%d" % tz)
        if tz == ln:
            ctx.bin("all_zero_payload")
        if c.declared < ln:
            ctx.bin("declared_lt_len")
        if c.declared == 1 and ln > 1:
            ctx.bin("declared_1")
        if [t for t, _ in c.desc] != sorted(t for t, _ in c.desc):
            ctx.bin("tag_order_not_sorted")
        if len(c.desc_bytes()) == 210:
            ctx.bin("desc_210_bytes")
        if any(t == 0xC2 for t, _ in c.desc):
            ctx.bin("enc_tag_other_value_on_plain_component")
    if not case.comps:
        ctx.bin("zero_components")
    if not case.comments:
        ctx.bin("zero_comments")
    if key == bytes(16):
        ctx.bin("default_key")
    elif key[-1] == 0:
        ctx.bin("key_ends_00")
    for mode in modes:
        obj = G.build_real(ns, case, explicit_len=(len(rp["key"]) + len(case.comps)) % 2 == 0)
        if dup:
            obj.components[-1] = obj.components[(len(case.comps) - 1) // 2]
        elif len(case.comments) % 3 == 1:
            # the component list handed to the constructor as a tuple / a one-shot iterator instead of a list
            comps_ = list(obj.components)
            obj = BF.Bf3File(dict(case.comments), tuple(comps_) if len(comps_) % 2 else iter(comps_))
            ctx.bin("components_given_as_tuple_or_iterator")
        ctx.ev()
        path = None
        # ------------------------------------------------------------------ write
        try:
            if mode == "stream":
                buf = io.StringIO()
                if key == bytes(16) and len(case.comps) % 2:
                    obj.write_file(buf)  # default argument
                else:
                    obj.write_file(buf, key)
                text = buf.getvalue()
                path = None
            else:
                fd, path = tempfile.mkstemp(dir=scratch, suffix=".bf3")
                if len(case.comps) % 2:
                    # the path already holds an older, longer file
                    os.write(fd, b"Old: file\r\n\r\n" + (b"42463300" + b"AB" * 36 + b"\r\n") * 60)
                    ctx.bin("path_target_holds_an_older_longer_file")
                os.close(fd)
                with warnings.catch_warnings(record=True) as wl:
                    warnings.simplefilter("always")
                    obj.write_file(path, key)
                    gc.collect()
                if any(issubclass(w.category, ResourceWarning) for w in wl):
                    ctx.violation("writer_leaks_file_object", {}, rp)
                with open(path, "rb") as f:
                    raw = f.read()
                text = None
            ctx.mon("write_file")
        except Exception as e:
            ctx.exc(e)
            oversize = any(len(c.desc_bytes()) > 210 for c in case.comps)
            if oversize:
                ctx.bin("desc_211_bytes_refused")
                ctx.note("writer_refused_oversize_description_" + type(e).__name__)
            elif special:
                ctx.note("writer_refused_comment_with_line_boundary_character")
            elif isinstance(e, UnicodeEncodeError) and mode == "path":
                ctx.note("writer_refused_comment_not_encodable_in_the_default_encoding")
            else:
                ctx.violation("writer_raises_on_object_in_domain", {"exc": fmt_exc(e), "mode": mode}, rp)
            if path:
                os.unlink(path)
            return
        if any(len(c.desc_bytes()) > 210 for c in case.comps):
            ctx.note("writer_accepted_oversize_description")
        # writer must not damage the object it was given
        if G.diff_file(obj, case):
            ctx.violation("writer_modifies_its_input_object", {"diff": G.diff_file(obj, case)}, rp)
        ctx.bin("io_" + mode)
        if mode == "path":
            if b"\r\n" in raw:
                ctx.bin("crlf_in_path_file")
            if raw.replace(b"\r\n", b"").count(b"\n") or raw.replace(b"\r\n", b"").count(b"\r"):
                ctx.violation("path_file_has_mixed_line_ends", {"head": raw[:80]}, rp)
        # ------------------------------------------------------------------ read
        readers = []
        for cm in macs:
            if mode == "stream":
                readers.append((cm, "stream", lambda cm=cm: BF.Bf3File.read_file(io.StringIO(text), cm, key)))
            else:
                readers.append((cm, "path", lambda cm=cm: BF.Bf3File.read_file(path, cm, key)))
        if mode == "path":
            def cross():
                with open(path, "r") as f:
                    return BF.Bf3File.read_file(f, True, key)
            readers.append((True, "path_written_stream_read", cross))
        if key == bytes(16):
            if mode == "stream":
                readers.append((True, "stream_default_args", lambda: BF.Bf3File.read_file(io.StringIO(text))))
        if mode == "stream" and (len(case.comps) + key[0]) % 3 == 0:
            def after_preamble():
                # the BF3 text is neither written nor read at stream offset 0: other content precedes it in the same stream
                s = io.StringIO()
                s.write("Preamble: earlier content of the same stream\n\n00FF\nfree text\n")
                start = s.tell()
                obj.write_file(s, key)
                s.seek(start)
                return BF.Bf3File.read_file(s, True, key)
            readers.append((True, "stream_positioned_after_other_content", after_preamble))
        for cm, how, rd in readers:
            ctx.ev()
            ctx.bin("mac_on" if cm else "mac_off")
            if how == "path_written_stream_read":
                ctx.bin("cross_mode_path_written_stream_read")
            if how == "stream_positioned_after_other_content":
                ctx.bin("stream_positioned_after_other_content")
            try:
                with warnings.catch_warnings(record=True) as wl:
                    warnings.simplefilter("always")
                    back = rd()
                    gc.collect()
                if any(issubclass(w.category, ResourceWarning) for w in wl):
                    ctx.violation("reader_leaks_file_object", {"how": how}, rp)
                ctx.mon("read_file")
            except Exception as e:
                ctx.violation("reader_rejects_file_written_by_writer", {"exc": fmt_exc(e), "how": how, "mac_check": cm}, rp)
                continue
            d = G.diff_file(back, case)
            if d:
                ctx.violation("read_back_differs:" + d[0].split("[")[0], {"diff": d, "how": how, "mac_check": cm}, rp)
            elif list(back.comments.items()) != list(case.comments):
                ctx.note("comment_order_changed")
        if path:
            os.unlink(path)
    # ---- history: the SAME object is mutated in place and written again under the same key -----------------
    if case.comps and len(case.comps[0].blob) < 5000:
        rng = ctx.rng
        obj = G.build_real(ns, case)
        try:
            b0 = io.StringIO()
            obj.write_file(b0, key)
            j = rng.randrange(len(case.comps))
            old = case.comps[j]
            how = rng.randrange(4)
            if how == 0:
                nb = bytes((x ^ 0xA5) for x in old.blob)  # same length, other bytes
            elif how == 1:
                nb = old.blob + rng.randbytes(rng.choice((1, 15, 16, 17)))
            elif how == 2:
                nb = old.blob[: max(1, len(old.blob) // 2)]
            else:
                nb = bytes(len(old.blob))
            obj.components[j].blob = nb
            obj.components[j].actual_len = len(nb)
            if len(old.desc_bytes()) < 200:
                obj.components[j].description[0x7E] = b"x"
            obj.comments["Rewritten"] = "yes"
            comps2 = list(case.comps)
            comps2[j] = MComp(list(obj.components[j].description.items()), nb, len(nb), False)
            case2 = G.Case(list(case.comments) + [("Rewritten", "yes")] if all(k != "Rewritten" for k, _ in case.comments) else [(k, ("yes" if k == "Rewritten" else v)) for k, v in case.comments], comps2)
            b1 = io.StringIO()
            obj.write_file(b1, key)
            ctx.ev()
            ctx.bin("rewrite_after_in_place_mutation")
            back = BF.Bf3File.read_file(io.StringIO(b1.getvalue()), True, key)
            d = G.diff_file(back, case2)
            if d:
                ctx.violation("second_write_of_mutated_object_reads_back_differently:" + d[0].split("[")[0], {"diff": d, "mutation": how}, rp)
        except Exception as e:
            if not any(len(c.desc_bytes()) > 208 for c in case.comps):
                ctx.violation("second_write_of_mutated_object_fails", {"exc": fmt_exc(e)}, rp)


def directed_cases(rng):
    mk = lambda blob, declared=None, desc=(): MComp(list(desc), blob, declared, False)
    for ln in list(range(1, 51)) + G.PAYLOAD_LENS + G.BIG_LENS + [65536, 65537]:
        yield G.Case([("FirmwareId", "1100")], [mk(G.gen_payload(rng, ln))])
    for tz in range(0, 34):
        for ln in (tz + 1, tz + 7, 48, 64):
            if ln > tz:
                body = bytearray(rng.randbytes(ln))
                if tz:
                    body[-tz:] = bytes(tz)
                body[ln - tz - 1] = body[ln - tz - 1] or 1
                yield G.Case([], [mk(bytes(body))])
    for ln in (1, 15, 16, 17, 40, 41):
        yield G.Case([("k", "v")], [mk(bytes(ln))])
        yield G.Case([], [mk(b"\xff" * ln, 1)])
    yield G.Case([], [])
    yield G.Case([("only", "comments"), ("", ""), ("a b", "c: d")], [])
    for dsz in (0, 2, 3, 100, 208, 209, 210, 211, 212, 255):
        if dsz == 1:
            continue
        yield G.Case([("d", str(dsz))], [mk(b"payload", None, G.desc_exact(rng, dsz))])
    yield G.Case([], [mk(b"x", None, [(0xC9, bytes(208))])])
    yield G.Case([], [mk(b"x", None, [(200, b"z"), (3, b""), (0xC3, b"\x02"), (1, b"\x00\x00")])])
    yield G.Case([("Ω", "ä€"), ("x", "")], [mk(b"abc", 2), mk(b"\x00", 1), mk(bytes(40), 40), mk(bytes(range(256)), 255)])


def run_shard(spec, ctx):
    os.environ.setdefault("PYTHONUTF8", "1")
    ns = load()
    rng = ctx.rng
    scratch = tempfile.mkdtemp(prefix="c01-", dir=os.environ.get("VERIF_SCRATCH"))
    try:
        if spec["kind"] == "threads":
            # several threads writing and reading their own files at the same time (one session key for all in half of the rounds),
            # interleaved at every source line of the reader / writer / cipher adapter code
            from ..sched import yieldrun

            BFm = ns.bf3file
            codes = yieldrun.code_objects_of(BFm, BFm.Bf3File, BFm.Bf3Component, ns.bytes_reader.BytesReader, ns.plugin.AES128Proxy, ns.aes.AESModeOfOperationCBC)
            codes += [c_ for c_ in yieldrun.code_objects_of_module(ns.bf3file, ns.bytes_reader, ns.crypto, ns.plugin) if c_ not in codes]  # module-level helpers and every class of these modules
            total = 0
            for rnd in range(spec["rounds"]):
                nthreads = (2, 3)[rnd % 2]
                cases = [G.gen_case(rng, ncomp=rng.choice((1, 2, 3))) for _ in range(nthreads)]
                keys = [rng.randbytes(16) for _ in range(nthreads)]
                if rnd % 4 >= 2:
                    keys = [keys[0]] * nthreads

                def body(i):
                    def run():
                        buf = io.StringIO()
                        G.build_real(ns, cases[i]).write_file(buf, keys[i])
                        back = BFm.Bf3File.read_file(io.StringIO(buf.getvalue()), True, keys[i])
                        return G.diff_file(back, cases[i])
                    return run

                res, y = yieldrun.run_concurrently([body(i) for i in range(nthreads)], codes, sleep=0.0001, max_yields=25000)
                total += y
                ctx.ev(nthreads)
                ctx.bin("write_and_read_by_concurrent_threads")
                ctx.mon("write_file", nthreads)
                ctx.mon("read_file", nthreads)
                ctx.distinct("threads", rnd, [c_.digest_parts() for c_ in cases], keys)
                for i, r in enumerate(res):
                    rp = {"case": cases[i].to_json(), "key": keys[i].hex(), "concurrent": True}
                    if r is None:
                        ctx.note("thread_still_running_after_timeout(inconclusive)")
                    elif r[0] == "exc":
                        if not any(len(c.desc_bytes()) > 210 for c in cases[i].comps):
                            ctx.violation("reader_rejects_file_written_by_writer", {"exc": r[1], "how": "concurrent_threads"}, rp)
                    elif r[1]:
                        ctx.violation("read_back_differs:" + r[1][0].split("[")[0], {"diff": r[1], "how": "concurrent_threads"}, rp)
            ctx.mon("line_yields_injected", total)
            ctx.sample({"kind": "threads", "rounds": spec["rounds"], "line_yields": total})
            return
        if spec["kind"] == "directed":
            for i, case in enumerate(directed_cases(rng)):
                key = (bytes(16), G.gen_key(rng))[i % 2]
                big = any(len(c.blob) > 5000 for c in case.comps)
                if big and ctx.tier == "quick" and len(case.comps[0].blob) > 66000:
                    continue
                check_case(ns, ctx, case, key, scratch, modes=("stream",) if big else ("stream", "path"), macs=(True,) if big else (True, False))
                if i == 3:
                    ctx.sample({"case": case.to_json(), "key": key})
            if ctx.tier != "quick":
                for ln in (1 << 20, (1 << 20) + 1):
                    check_case(ns, ctx, G.Case([], [MComp([], rng.randbytes(ln), None, False)]), rng.randbytes(16), scratch, modes=("path",), macs=(True,))
            return
        if spec.get("ascii_locale"):
            import locale

            if locale.getpreferredencoding(False).lower().replace("-", "") in ("utf8",):
                raise RuntimeError("harness: shard meant to run with an ASCII default encoding has %s" % locale.getpreferredencoding(False))
            ctx.bin("default_text_encoding_is_ascii")
        for i in range(spec["n"]):
            case = G.gen_case(rng, big=spec.get("big", False))
            key = G.gen_key(rng)
            if i % 6 == 1:
                # characters inside a comment that are no line ends for file I/O but count as line boundaries for str.splitlines()
                # (VT, FF, FS, GS, RS, NEL, LS, PS): the writer may refuse them; what it writes must read back unchanged
                ch = SPECIAL_CHARS[(i // 6) % len(SPECIAL_CHARS)]
                case.comments = list(case.comments) + [("Creator" + ("" if i % 12 == 1 else ch + "k"), "tool" + ch + "v2" + (":7" if i % 18 == 1 else ""))]
                ctx.bin("comment_with_unicode_line_boundary_character")
                check_case(ns, ctx, case, key, scratch, special=True)
                continue
            if i % 6 == 4 and case.comps:
                ctx.bin("same_component_object_listed_twice")
                check_case(ns, ctx, case, key, scratch, dup=True)
                continue
            check_case(ns, ctx, case, key, scratch)
            if i == 0:
                ctx.sample({"case": case.to_json(), "key": key})
    finally:
        import shutil

        shutil.rmtree(scratch, ignore_errors=True)


def replay(rec, ctx):
    ns = load()
    scratch = tempfile.mkdtemp(prefix="c01-")
    try:
        check_case(ns, ctx, G.Case.from_json(rec["case"]), bytes.fromhex(rec["key"]), scratch, dup=bool(rec.get("dup")), special=bool(rec.get("special")))
    finally:
        import shutil

        shutil.rmtree(scratch, ignore_errors=True)
