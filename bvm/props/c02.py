"""C02 - BEC2 write-then-read recovers key, auth blocks and content for every key.

Oracle: equality of session key, block list (tag order + attributes; pass-through
blocks by raw bytes) and content with the model of what was written."""
import io
import os
import tempfile

from ..ctx import fmt_exc
from ..gen import bec2 as GB
from ..gen import files as G
from ..load import load
from ..refs import container
from ..refs import crc as crcref
from ..refs import layout as L
from ..refs.layout import MComp

ID = "C02"
LEVEL = "exploration"
RULE = (
    "case = (session key, ordered auth-block list with parameters, content incl. an encrypted configuration component, decryptor subset); "
    "directed: keys ending in 1/2/3/15 zero bytes, keys/versions solved so that the CRC-16 of each AES block's payload has low / high / both "
    "bytes 00, all 15 ordered block lists, selectors 0..3, versions 0/1/7F/80/FF, security codes all-zero and ending in 00, customer key "
    "absent/present, every non-empty decryptor subset; seeded random on top. distinct = digest of the case; non-trivial = every case"
)
ASSUMPTIONS = [
    "the customer key sits at position 0 (the only position consistent with the 10-byte placeholder)",
    "blocks without a matching decryptor come back as pass-through blocks and are compared by tag and raw bytes",
    "one block per kind (the object model is keyed by tag)",
]
TIMEOUT = {"quick": 900, "thorough": 8 * 3600}
OPTIMIZED_SHARDS = ("rt02",)  # these shards also run under python -O
NSH = 16


def plan(tier, seed):
    n = 5760 if tier == "quick" else 60000
    jobs = [{"name": "rt%02d" % i, "spec": {"n": n // NSH, "i": i}} for i in range(NSH)]
    jobs += [{"name": "threads%02d" % i, "spec": {"kind": "threads", "rounds": 4 if tier == "quick" else 50}} for i in range(2 if tier == "quick" else 8)]
    return jobs


def mandatory_bins(tier):
    b = ["blocks_" + "+".join(l) for l in GB.all_block_lists()]
    b += ["sel_%d" % s for s in range(4)]
    b += ["key_trailing_zero_%d" % z for z in (1, 2, 3, 15)]
    b += ["crc_lo_00:cust", "crc_hi_00:cust", "crc_both_00:cust", "crc_lo_00:update", "crc_hi_00:update", "crc_both_00:update",
          "decryptors_all", "decryptors_single", "decryptors_partial", "pass_through_block", "encrypted_config_component", "customer_key_present", "customer_key_absent",
          "version_00", "version_ff", "version_80", "code_all_zero", "code_ends_00", "config_blob_trailing_zero_padding", "key_all_zero", "ecc_distractor_decryptors_before_the_matching_one", "ecc_distractor_encryptors_on_write", "second_write_after_replacing_a_block_of_the_same_kind", "foreign_blocks_of_unknown_kind", "session_key_contains_customer_key", "file_name_instead_of_stream", "read_with_mac_check_off", "update_block_attributes_reassigned", "stream_positioned_after_other_content", "constructed_without_block_list_then_add_auth_block", "encryptors_given_as_tuple", "encryptors_given_as_deque", "encryptors_given_as_dict_values", "several_encrypted_components", "write_and_read_by_concurrent_threads", "one_ecc_decryptor_object_shared_by_reading_threads", "session_key_buffer_refilled_in_place_between_two_writes", "second_write_after_tag_list_of_a_component_changed"]
    return b


def solve_key(rng, s, want):
    """session key (and for the update block possibly the version) such that the CRC of
    the block's payload has the wanted low/high byte(s)"""
    hi = 0 if want in ("hi", "both") else None
    lo = 0 if want in ("lo", "both") else None
    if s["kind"] == "cust":
        head = (s["ck"] if s["ck"] is not None else bytes(10)) + rng.randbytes(14)
        tail = container.solve_crc_suffix(head, hi, lo)
        return head[10:] + tail
    head = rng.randbytes(15)
    tail = container.solve_crc_suffix(head, hi, lo)  # last key byte + version
    s["version"] = tail[1]
    return head + tail[:1]


def block_attrs(b, ns):
    B = ns.bec2file
    if isinstance(b, B.UnknownAuthBlock):
        return ("unknown", b.tag, bytes(b.binary_value))
    if isinstance(b, B.InitCustKeyAuthBlock):
        return ("cust", b.tag)
    if isinstance(b, B.InitEccAuthBlock):
        return ("ecc", b.tag, b.key_selector)
    if isinstance(b, B.UpdateAuthBlock):
        return ("update", b.tag, bytes(b.config_security_code), b.version)
    return ("?", getattr(b, "tag", None))


def check_case(ns, ctx, case, conf, key, specs, subsets):
    B = ns.bec2file
    rp = {"case": case.to_json(), "conf": [[k, v, c.hex()] for (k, v), c in conf.items()] if conf is not None else None, "key": key.hex(), "blocks": GB.spec_json(specs)}
    ctx.distinct(case.digest_parts(), conf, key, GB.spec_json(specs))
    if (key[8] + len(specs)) % 3 == 0:
        # further session-key encrypted components besides the configuration: first in the file, and (sometimes) between plain ones
        extra = [MComp([(0xC3, b"\x02"), (0xC2, b"\x02")], ctx.rng.randbytes(ctx.rng.choice((5, 16, 33, 48))), None, True)]
        if key[9] % 2:
            extra.append(MComp([(0xC2, b"\x02"), (1, b"second")], ctx.rng.randbytes(ctx.rng.choice((1, 17, 64))), None, True))
        for e_ in extra:
            e_.declared = len(e_.blob)
        case = G.Case(case.comments, [extra[0]] + list(case.comps) + extra[1:])
        ctx.bin("several_encrypted_components")
    bf3 = G.build_real(ns, case)
    model_comps = list(case.comps)
    if conf is not None:
        bf3.set_config(dict(conf))
        rc = bf3.components[-1]
        model_comps.append(MComp(list(rc.description.items()), bytes(rc.blob), rc.actual_len, True))
        ctx.bin("encrypted_config_component")
        if len(rc.blob) % 16:
            ctx.bin("config_blob_trailing_zero_padding")
    mcase = G.Case(case.comments, model_comps)
    if (key[5] + len(specs)) % 3 == 0:
        # constructed WITHOUT a block list (and with the key as keyword), blocks added one by one afterwards
        f = B.Bec2File(bf3, session_key=key)
        for blk in GB.real_auth_blocks(ns, specs):
            f.add_auth_block(blk)
        ctx.bin("constructed_without_block_list_then_add_auth_block")
    else:
        f = B.Bec2File(bf3, GB.real_auth_blocks(ns, specs), key)
    buf = io.StringIO()
    ctx.ev()
    has_ecc = any(s["kind"] == "ecc" for s in specs)

    def distractors(n):
        """ECC (de)cryptors for OTHER selectors, placed before the matching one: the selector filter must skip them"""
        used = {s["sel"] for s in specs if s["kind"] == "ecc"}
        out = []
        for sel in range(4):
            if sel not in used and len(out) < n:
                out.append(B.EccDecryptor(sel, GB.private_key_obj(ns, 1000 + sel)))
        return out

    wenc = GB.write_encryptors(ns, specs)
    if has_ecc and len(case.comps) % 2 == 0:
        wenc = distractors(2) + wenc
        ctx.bin("ecc_distractor_encryptors_on_write")
    path = None
    if (key[1] + len(specs)) % 4 == 0:
        # file NAME instead of an open stream, for writing and for reading
        fd, path = tempfile.mkstemp(prefix="c02-", suffix=".bec2", dir=os.environ.get("VERIF_SCRATCH"))
        os.close(fd)
        ctx.bin("file_name_instead_of_stream")
    wenc = as_container(ctx, wenc, key[6])
    try:
        f.write_file(path if path else buf, wenc)
        ctx.mon("write_file")
    except Exception as e:
        if path:
            os.unlink(path)
        ctx.violation("writer_raises_on_object_in_domain", {"exc": fmt_exc(e)}, rp)
        return
    if path:
        with open(path) as fh:
            text = fh.read()
    else:
        text = buf.getvalue()
    try:
        _check_reads(ns, ctx, B, specs, subsets, key, text, path, has_ecc, distractors, mcase, rp)
    finally:
        if path:
            os.unlink(path)
    _second_write(ns, ctx, B, f, specs, case, key, wenc, rp)
    if not has_ecc and GB.openable(specs) and (key[2] + len(case.comps)) % 3 == 0:
        _key_buffer_history(ns, ctx, B, specs, case, key, rp)


def _key_buffer_history(ns, ctx, B, specs, case, key, rp):
    """history: the session key lives in a buffer the caller refills in place (bytearray) between two writes of the SAME file object;
    each written file is a file under the key that was in the buffer when it was written"""
    kb = bytearray(key)
    k2 = bytes((b ^ 0xA5) for b in key)
    try:
        f = B.Bec2File(G.build_real(ns, case), GB.real_auth_blocks(ns, specs), kb)
        wenc = GB.write_encryptors(ns, specs)
        b1 = io.StringIO()
        f.write_file(b1, wenc)
    except TypeError as e:
        ctx.exc(e)
        ctx.note("session_key_in_a_bytearray_refused")
        return
    except Exception as e:
        if any(len(c.desc_bytes()) > 210 for c in case.comps):
            return
        ctx.violation("writer_raises_on_object_in_domain", {"exc": fmt_exc(e), "session_key": "bytearray"}, rp)
        return
    ctx.ev()
    ctx.bin("session_key_buffer_refilled_in_place_between_two_writes")
    kb[:] = k2
    try:
        b2 = io.StringIO()
        f.write_file(b2, wenc)
        ctx.mon("write_file")
    except Exception as e:
        ctx.violation("writer_raises_on_object_in_domain", {"exc": fmt_exc(e), "session_key": "bytearray refilled in place, second write"}, rp)
        return
    for n, (text, want) in enumerate(((b1.getvalue(), key), (b2.getvalue(), k2))):
        try:
            back = B.Bec2File.read_file(io.StringIO(text), GB.read_encryptors(ns, specs), True)
            ctx.mon("read_file")
        except Exception as e:
            ctx.violation("reader_rejects_file_written_by_writer:key_buffer_refilled_between_writes", {"exc": fmt_exc(e), "write_number": n + 1}, rp)
            return
        d = G.diff_file(back.bf3file, case)
        if bytes(back.session_key) != want:
            d.append("session_key")
        if d:
            ctx.violation("read_back_differs:key_buffer_refilled_between_writes", {"diff": d, "write_number": n + 1}, rp)
            return


def _check_reads(ns, ctx, B, specs, subsets, key, text, path, has_ecc, distractors, mcase, rp):
    try:
        _, binary = L.parse_text(text)
        written_blocks, _pos = L.parse_bec2_header(binary)
    except L.LayoutError as e:
        ctx.violation("written_file_not_parsable_by_model", {"err": str(e)}, rp)
        return
    for subset in subsets:
        ctx.ev()
        if len(subset) == len(GB.openable(specs)):
            ctx.bin("decryptors_all")
        elif len(subset) == 1:
            ctx.bin("decryptors_single")
        else:
            ctx.bin("decryptors_partial")
        renc = GB.read_encryptors(ns, specs, subset)
        if has_ecc and any(specs[i]["kind"] == "ecc" for i in subset) and len(subset) % 2 == 1:
            renc = distractors(3) + renc
            ctx.bin("ecc_distractor_decryptors_before_the_matching_one")
        # reading with the MAC check switched off must give the same result for an authentic file
        cm = not (len(subset) + key[2]) % 3 == 0
        if not cm:
            ctx.bin("read_with_mac_check_off")
        src = path if path else io.StringIO(text)
        if not path and (len(subset) + key[4]) % 4 == 1:
            # the BEC2 text does not start at offset 0 of the stream it is read from
            src = io.StringIO()
            src.write("Other: content earlier in the same stream\n\nAB12\n")
            start = src.tell()
            src.write(text)
            src.seek(start)
            ctx.bin("stream_positioned_after_other_content")
        renc = as_container(ctx, renc, key[7] + len(subset))
        try:
            back = B.Bec2File.read_file(src, renc, cm)
            ctx.mon("read_file")
        except Exception as e:
            kinds = "+".join(specs[i]["kind"] for i in sorted(subset))
            ctx.violation("reader_rejects_file_written_by_writer:" + classify_exc(e), {"exc": fmt_exc(e), "decryptors": kinds, "key_tail": key[-3:]}, dict(rp, subset=sorted(subset)))
            continue
        if bytes(back.session_key) != key:
            ctx.violation("session_key_differs", {"got": back.session_key, "expected": key}, dict(rp, subset=sorted(subset)))
            continue
        got = [block_attrs(b, ns) for b in back.auth_blocks.values()]
        want = []
        for i, s in enumerate(specs):
            if s["kind"] == "unknown":
                want.append(("unknown", s["tag"], s["value"]))
            elif i in subset:
                want.append({"cust": ("cust", 1), "ecc": ("ecc", 3, s.get("sel")), "update": ("update", 2, s.get("code"), s.get("version"))}[s["kind"]])
            else:
                want.append(("unknown", GB.TAGS[s["kind"]], written_blocks[i][1]))
                ctx.bin("pass_through_block")
        if got != want:
            what = "order_or_count" if [g[1] for g in got] != [w[1] for w in want] else "attributes"
            ctx.violation("auth_blocks_differ:" + what, {"got": got, "expected": want}, dict(rp, subset=sorted(subset)))
            continue
        d = G.diff_file(back.bf3file, mcase)
        if d:
            ctx.violation("content_differs:" + d[0].split("[")[0], {"diff": d}, dict(rp, subset=sorted(subset)))


def _second_write(ns, ctx, B, f, specs, case, key, wenc, rp):
    # ---- history: the SAME Bec2File object, one block replaced by another of the same kind, same encryptor list ----
    upd = [i for i, s in enumerate(specs) if s["kind"] == "update"]
    if upd:
        i = upd[0]
        specs2 = [dict(s) for s in specs]
        specs2[i]["version"] = (specs[i]["version"] + 0x81) % 256
        if len(case.comps) % 2:
            specs2[i]["code"] = bytes((b ^ 0x55) for b in specs[i]["code"])
        if len(case.comps) % 3 == 2 and hasattr(f.auth_blocks.get(2), "version"):
            # the block object the file already holds is edited through its public attributes instead of being replaced
            blk = f.auth_blocks[2]
            blk.version = specs2[i]["version"]
            blk.config_security_code = specs2[i]["code"]
            ctx.bin("update_block_attributes_reassigned")
        else:
            f.add_auth_block(B.UpdateAuthBlock(specs2[i]["code"], specs2[i]["version"]))
        ctx.ev()
        ctx.bin("second_write_after_replacing_a_block_of_the_same_kind")
        try:
            buf2 = io.StringIO()
            f.write_file(buf2, wenc)
            back = B.Bec2File.read_file(io.StringIO(buf2.getvalue()), GB.read_encryptors(ns, specs2), True)
            got = [block_attrs(b, ns) for b in back.auth_blocks.values()]
            want = [("unknown", s["tag"], s["value"]) if s["kind"] == "unknown" else {"cust": ("cust", 1), "ecc": ("ecc", 3, s.get("sel")), "update": ("update", 2, s.get("code"), s.get("version"))}[s["kind"]] for s in specs2]
            if sorted(map(repr, got)) != sorted(map(repr, want)) or bytes(back.session_key) != key:
                ctx.violation("second_write_after_block_replacement_reads_back_stale_or_wrong_blocks", {"got": got, "expected": want}, rp)
        except Exception as e:
            ctx.violation("second_write_after_block_replacement_not_readable", {"exc": fmt_exc(e)}, rp)
    # ---- history: the tag list of an existing component changed in place (same number of components, another directory size) ----
    comps = f.bf3file.components
    if comps and len(case.comps) == len(comps) and not any(t == 0x71 for t, _ in case.comps[0].desc) and len(case.comps[0].desc_bytes()) <= 190 and key[3] % 2 == 0:
        comps[0].description[0x71] = b"zz"
        case.comps[0].desc.append((0x71, b"zz"))
        ctx.ev()
        ctx.bin("second_write_after_tag_list_of_a_component_changed")
        try:
            buf3 = io.StringIO()
            f.write_file(buf3, wenc)
            back = B.Bec2File.read_file(io.StringIO(buf3.getvalue()), GB.read_encryptors(ns, specs2 if upd else specs), True)
            d = G.diff_file(back.bf3file, case)
            if d:
                ctx.violation("read_back_differs:after_tag_list_changed_in_place", {"diff": d}, rp)
        except Exception as e:
            ctx.violation("reader_rejects_file_written_by_writer:after_tag_list_changed_in_place", {"exc": fmt_exc(e)}, rp)


def as_container(ctx, encs, sel):
    """the (de)cryptors in another re-iterable container type than a list"""
    import collections

    encs = list(encs)
    k = sel % 5
    if k == 0:
        return encs
    if k == 1:
        ctx.bin("encryptors_given_as_tuple")
        return tuple(encs)
    if k == 2:
        ctx.bin("encryptors_given_as_deque")
        return collections.deque(encs)
    if k == 3:
        ctx.bin("encryptors_given_as_dict_values")
        return {i: e for i, e in enumerate(encs)}.values()
    ctx.bin("encryptors_given_as_tuple")
    return tuple(encs)


def classify_exc(e):
    m = str(e)
    for k in ("Invalid CRC", "Invalid key size", "CMAC", "same sessionkey", "no decryptable"):
        if k in m:
            return k.replace(" ", "_")
    return type(e).__name__


def all_subsets(n):
    out = []
    for m in range(1, 1 << n):
        out.append(frozenset(i for i in range(n) if m >> i & 1))
    return out


CONF = {(0x1111, 0x22): bytes([0x33] * 3), (0x0202, 0x82): bytes([0x45] * 8), (0x0620, 0x01): (10234).to_bytes(4, "big"), (0x0620, 0x05): (5678).to_bytes(2, "big"), (0x0620, 0x07): b"\x09", (0x0620, 0x06): b"Testname"}


def run_threads(ns, ctx, spec):
    """several threads writing and reading their own BEC2 files at the same time (customer-key / update blocks; all files under
    ONE session key in half of the rounds), interleaved at every source line of the reader / writer / container / adapter code"""
    from ..sched import yieldrun

    B, BFm = ns.bec2file, ns.bf3file
    rng = ctx.rng
    codes = yieldrun.code_objects_of(BFm, BFm.Bf3File, BFm.Bf3Component, B.Bec2File, B.AesEncryptorMixin, B.SoftwareCustKeyEncryptor, B.UpdateAuthBlock, B.InitCustKeyAuthBlock, B.AuthBlock, ns.bytes_reader.BytesReader,
                                     ns.plugin.AES128Proxy, ns.aes.AESModeOfOperationCBC, ns.plugin.PrivateEccKeyProxy, ns.plugin.PublicEccKeyProxy, B.EccEncryptor, B.EccDecryptor, B.InitEccAuthBlock)
    codes += [c_ for c_ in yieldrun.code_objects_of_module(ns.bf3file, ns.bec2file, ns.bytes_reader, ns.crypto, ns.plugin) if c_ not in codes]  # module-level helpers and every class of these modules
    total = 0
    for rnd in range(spec["rounds"]):
        nthreads = (2, 3)[rnd % 2]
        cases = [G.gen_case(rng, ncomp=rng.choice((1, 2))) for _ in range(nthreads)]
        keys = [rng.randbytes(16) for _ in range(nthreads)]
        if rnd % 4 >= 2:
            keys = [keys[0]] * nthreads
        all_specs = [GB.gen_blocks(rng, rng.choice((("cust",), ("update",), ("cust", "update"), ("update", "cust")))) for _ in range(nthreads)]
        shared_dec = None
        if rnd % 3 == 2:
            # every file has an ECC block for the SAME recipient, and all threads read with ONE shared decryptor object
            one = GB.gen_block_spec(rng, "ecc")
            all_specs = [[dict(one)] for _ in range(nthreads)]
            shared_dec = [GB.encryptor_for(ns, one, True)]
            ctx.bin("one_ecc_decryptor_object_shared_by_reading_threads")

        def body(i):
            def run():
                f = B.Bec2File(G.build_real(ns, cases[i]), GB.real_auth_blocks(ns, all_specs[i]), keys[i])
                buf = io.StringIO()
                f.write_file(buf, GB.write_encryptors(ns, all_specs[i]))
                back = B.Bec2File.read_file(io.StringIO(buf.getvalue()), shared_dec if shared_dec else GB.read_encryptors(ns, all_specs[i]), True)
                return bytes(back.session_key), G.diff_file(back.bf3file, cases[i]), [block_attrs(b, ns) for b in back.auth_blocks.values()]
            return run

        res, y = yieldrun.run_concurrently([body(i) for i in range(nthreads)], codes, sleep=0.0001, max_yields=30000)
        total += y
        ctx.ev(nthreads)
        ctx.bin("write_and_read_by_concurrent_threads")
        ctx.mon("write_file", nthreads)
        ctx.mon("read_file", nthreads)
        ctx.distinct("threads", rnd, keys)
        for i, r in enumerate(res):
            rp = {"case": cases[i].to_json(), "conf": None, "key": keys[i].hex(), "blocks": GB.spec_json(all_specs[i]), "concurrent": True}
            if r is None:
                ctx.note("thread_still_running_after_timeout(inconclusive)")
            elif r[0] == "exc":
                if not any(len(c.desc_bytes()) > 210 for c in cases[i].comps):
                    ctx.violation("reader_rejects_file_written_by_writer:concurrent_threads", {"exc": r[1]}, rp)
            else:
                k_, d_, blocks_ = r[1]
                want = [{"cust": ("cust", 1), "ecc": ("ecc", 3, s_.get("sel")), "update": ("update", 2, s_.get("code"), s_.get("version"))}[s_["kind"]] for s_ in all_specs[i]]
                if k_ != keys[i]:
                    ctx.violation("session_key_differs", {"how": "concurrent_threads"}, rp)
                elif d_:
                    ctx.violation("content_differs:" + d_[0].split("[")[0], {"diff": d_, "how": "concurrent_threads"}, rp)
                elif blocks_ != want:
                    ctx.violation("auth_blocks_differ:attributes", {"got": blocks_, "expected": want, "how": "concurrent_threads"}, rp)
    # files with an ECC block for ONE recipient, written beforehand; the threads only READ, all through one shared decryptor object
    codes2 = yieldrun.code_objects_of(ns.plugin.PrivateEccKeyProxy, ns.plugin.PublicEccKeyProxy, B.EccEncryptor, B.EccDecryptor, B.InitEccAuthBlock)
    for rnd in range(max(2, spec["rounds"] // 2)):
        nthreads = (2, 3)[rnd % 2]
        one = GB.gen_block_spec(rng, "ecc")
        dec = [GB.encryptor_for(ns, one, True)]
        keys = [rng.randbytes(16) for _ in range(nthreads)]
        cases = [G.gen_case(rng, ncomp=1) for _ in range(nthreads)]
        texts = []
        for i in range(nthreads):
            buf = io.StringIO()
            B.Bec2File(G.build_real(ns, cases[i]), GB.real_auth_blocks(ns, [one]), keys[i]).write_file(buf, GB.write_encryptors(ns, [one]))
            texts.append(buf.getvalue())

        def body2(i):
            def run():
                back = B.Bec2File.read_file(io.StringIO(texts[i]), dec, True)
                return bytes(back.session_key), G.diff_file(back.bf3file, cases[i])
            return run

        res, y = yieldrun.run_concurrently([body2(i) for i in range(nthreads)], codes2, sleep=0.0005, max_yields=4000)
        total += y
        ctx.ev(nthreads)
        ctx.bin("one_ecc_decryptor_object_shared_by_reading_threads")
        ctx.mon("read_file", nthreads)
        for i, r in enumerate(res):
            rp = {"case": cases[i].to_json(), "conf": None, "key": keys[i].hex(), "blocks": GB.spec_json([one]), "concurrent": True}
            if r is None:
                ctx.note("thread_still_running_after_timeout(inconclusive)")
            elif r[0] == "exc":
                if not any(len(c.desc_bytes()) > 210 for c in cases[i].comps):
                    ctx.violation("reader_rejects_file_written_by_writer:shared_decryptor_concurrent_threads", {"exc": r[1]}, rp)
            elif r[1][0] != keys[i] or r[1][1]:
                ctx.violation("session_key_differs" if r[1][0] != keys[i] else "content_differs:" + r[1][1][0].split("[")[0], {"how": "shared_decryptor_concurrent_threads"}, rp)
    ctx.mon("line_yields_injected", total)
    ctx.sample({"kind": "threads", "rounds": spec["rounds"], "line_yields": total})


def run_shard(spec, ctx):
    ns = load()
    rng = ctx.rng
    if spec.get("kind") == "threads":
        run_threads(ns, ctx, spec)
        return
    lists = GB.all_block_lists()
    for j in range(spec["n"]):
        idx = spec["i"] + NSH * j
        kinds = lists[idx % len(lists)]
        specs = GB.gen_blocks(rng, kinds, foreign=(idx % 4 == 2))
        if idx % 4 == 2:
            ctx.bin("foreign_blocks_of_unknown_kind")
        ctx.bin("blocks_" + "+".join(kinds))
        for s in specs:
            if s["kind"] == "ecc":
                if idx < 64:
                    s["sel"] = idx % 4
                ctx.bin("sel_%d" % s["sel"])
            if s["kind"] == "cust":
                ctx.bin("customer_key_present" if s["ck"] is not None else "customer_key_absent")
            if s["kind"] == "update":
                if s["code"] == bytes(8):
                    ctx.bin("code_all_zero")
                elif s["code"][-1] == 0:
                    ctx.bin("code_ends_00")
        # session key
        mode = (idx // len(lists)) % 9
        aes = [s for s in specs if s["kind"] in ("cust", "update")]
        key = rng.randbytes(16)
        withck = [s for s in specs if s["kind"] == "cust" and s["ck"] is not None]
        if withck and idx % 5 == 1:
            # the wrapped payload is customer key || session key: a session key that itself contains the customer-key bytes
            s = withck[0]
            if rng.random() < 0.3:
                s["ck"] = bytes([rng.randrange(1, 256)]) * 10
                key = s["ck"][:1] * 16
            else:
                off = rng.randrange(0, 7)
                key = key[:off] + s["ck"] + key[off + 10:]
            ctx.bin("session_key_contains_customer_key")
        elif mode in (0, 1, 2) and aes:
            want = ("lo", "hi", "both")[mode]
            s = aes[(idx // 7) % len(aes)]
            key = solve_key(rng, s, want)
            ctx.bin("crc_%s_00:%s" % (want, s["kind"]))
        elif mode in (3, 4, 5, 6):
            z = (1, 2, 3, 15)[mode - 3]
            key = rng.randbytes(16 - z).rstrip(b"\0").ljust(16 - z, b"\x01") + bytes(z)
            ctx.bin("key_trailing_zero_%d" % z)
        elif mode == 7:
            key = G.gen_key(rng)
        elif mode == 8:
            key = bytes(16)  # the all-zero key given explicitly is a legal session key
        if key == bytes(16):
            ctx.bin("key_all_zero")
        for s in specs:
            if s["kind"] == "update":
                if s["version"] in (0, 0x80, 0xFF):
                    ctx.bin("version_%02x" % s["version"])
        case = G.gen_case(rng, ncomp=rng.choice((0, 1, 2)))
        # a plain component must not claim to be THE configuration (TYPE=03): set_config would - correctly - replace it
        for c in case.comps:
            c.desc = [(t, (b"\x02" if (t == 0xC3 and v == b"\x03") else v)) for t, v in c.desc]
        conf = None
        if rng.random() < 0.6:
            conf = dict(CONF)
            conf[(0x3000, rng.randrange(0xFF))] = rng.randbytes(rng.randrange(0, 60))
            if rng.random() < 0.3:
                conf[(0x3001, 1)] = bytes(rng.randrange(1, 20))
        op = GB.openable(specs)
        n = len(op)
        subs = [frozenset(op[i] for i in sub) for sub in all_subsets(n)]
        if ctx.tier == "quick" and n == 3 and idx % 3:
            subs = [frozenset(op), rng.choice(subs)]
        check_case(ns, ctx, case, conf, key, specs, subs)
        if j == 0:
            ctx.sample({"key": key, "blocks": GB.spec_json(specs), "components": len(case.comps), "config": conf is not None})


def replay(rec, ctx):
    ns = load()
    if rec.get("concurrent"):
        run_threads(ns, ctx, {"rounds": 4})
        return
    conf = {(k, v): bytes.fromhex(c) for k, v, c in rec["conf"]} if rec.get("conf") else None
    specs = GB.spec_from_json(rec["blocks"])
    subs = [frozenset(rec["subset"])] if rec.get("subset") is not None else all_subsets(len(specs))
    check_case(ns, ctx, G.Case.from_json(rec["case"]), conf, bytes.fromhex(rec["key"]), specs, subs)
