"""C11 - configuration updates are history-independent.

History monitor: operation sequences are executed against the real Bf3File /
Bec2File objects and a small sequential model in lock-step; the comparison runs
after EVERY operation (independent TLV decoder + configuration-identifier model)."""
import io
import itertools

from ..ctx import fmt_exc
from ..load import load
from ..refs import configid as cid
from ..refs import tlvcfg

ID = "C11"
LEVEL = "exploration"
RULE = (
    "history = sequence of operations over {set_config(c0..c22, incl. the empty dictionary and security codes of 3 / 12 / 16 bytes) without / with additional TLV blocks, derive_comments(c), derive_auth_blocks(c, ecc|cust), append / insert-at-0 / insert-in-middle "
    "of a firmware component with or without TYPE tag, write+read back (replacing the object), foreign comment edit, write-and-check keeping the same object}; ALL sequences up to length 4 (quick) / 5 "
    "(thorough) over a reduced 10-letter alphabet plus seeded random sequences of length 5..25 over the full alphabet; the model is compared with the real "
    "objects after every operation. distinct = digest of the operation sequence; non-trivial = contains at least one set_config or derive operation"
)
ASSUMPTIONS = [
    "the configuration must be last right after a set_config; a caller appending a component after it is the caller's choice",
    "block set is fixed only for a file that had none; later derivations are checked for 'initial kind present' and 'update block matches when code and identifier exist'",
    "RequiresBusAddress is judged for value absent (-> absent) and non-zero value (-> 'Yes'); a present all-zero / empty value is judged against what a fresh object derives from the same configuration (history independence only)",
    "derived comment text = the two documented identifier forms (device settings print project 0000)",
]
TIMEOUT = {"quick": 900, "thorough": 8 * 3600}
OPTIMIZED_SHARDS = ("enum02", "rand01")  # these shards also run under python -O
NSH = 16

K = 0x0620
CODE = (0x0202, 0x82)
CONFIGS = [
    {(K, 1): (10234).to_bytes(4, "big"), (K, 5): (5678).to_bytes(2, "big"), (K, 2): (6789).to_bytes(2, "big"), (K, 7): b"\x09", (K, 6): b"Testname", CODE: bytes([0x45] * 8), (K, 0x20): b"\x01", (0x1111, 0x22): b"\x33\x33"},
    {(K, 1): (77).to_bytes(2, "big"), (K, 7): b"\x02", (K, 6): b"Only Name", CODE: bytes(range(8)), (0x1111, 0x23): b""},
    {(K, 1): (500).to_bytes(2, "big"), (K, 2): (0).to_bytes(2, "big"), (K, 4): b"\x11", (K, 3): b"DevSet", (0x2222, 1): b"abc"},
    {CODE: b"\xff" * 8, (0x3333, 3): bytes(40)},
    {(K, 1): (1).to_bytes(1, "big"), (K, 5): (9999).to_bytes(2, "big"), (K, 7): b"\x63", (0x1111, 0x22): b"\x01"},
    {(K, 1): (42).to_bytes(4, "big"), (K, 5): (1).to_bytes(2, "big"), (K, 2): (3).to_bytes(2, "big"), (K, 7): b"\x01", (K, 6): b"P", (K, 4): b"\x05", (K, 3): b"D (version 07)", CODE: b"12345678"},
    {(K, 7): b"\x07", (K, 6): "Nur Name ü".encode(), CODE: bytes(8), (K, 0x20): b"\x02"},
    dict([((K, 1), (31337).to_bytes(4, "big")), ((K, 5), (12).to_bytes(2, "big")), ((K, 7), b"\x00"), ((K, 6), b"big")] + [((0x4000 + i, j), bytes([i, j]) * 20) for i in range(6) for j in range(4)]),
]
# same project identifier as CONFIGS[0] / CONFIGS[5], other device settings / bus flag / security code
CONFIGS.append({(K, 1): (10234).to_bytes(4, "big"), (K, 5): (5678).to_bytes(2, "big"), (K, 2): (6789).to_bytes(2, "big"), (K, 7): b"\x09", (K, 6): b"Testname", (K, 4): b"\x02", (K, 3): b"Dev2", CODE: bytes([0x46] * 8)})
CONFIGS.append({(K, 1): (42).to_bytes(4, "big"), (K, 5): (1).to_bytes(2, "big"), (K, 2): (3).to_bytes(2, "big"), (K, 7): b"\x01", (K, 6): b"P", (K, 4): b"\x06", (K, 3): b"D (version 07)", (K, 0x20): b"\x01"})
# identifiers wider than the canonical text form (version >= 100, customer >= 100000, project / device >= 10000): their
# printed form is not parseable as an identifier, which must not matter to a later derivation
CONFIGS.append({(K, 1): (123456).to_bytes(4, "big"), (K, 5): (65535).to_bytes(2, "big"), (K, 7): b"\xff", (K, 6): b"Wide", CODE: bytes([0x47] * 8)})
CONFIGS.append({(K, 1): (7).to_bytes(2, "big"), (K, 2): (12345).to_bytes(2, "big"), (K, 4): b"\xc8", (K, 3): b"WideDev", (K, 7): b"\x64", (K, 6): b"V100"})
# bus-address value present but all-zero / empty (meaning not stated; judged for history independence only)
CONFIGS.append({(K, 7): b"\x05", (K, 6): b"ZeroBus", (K, 0x20): b"\x00", CODE: bytes([0x48] * 8)})
CONFIGS.append({(K, 1): (9).to_bytes(2, "big"), (K, 4): b"\x01", (K, 3): b"EmptyBus", (K, 0x20): b""})
# a project VERSION without any usable project identifier, next to a complete device identifier and a security code: the update
# block carries the device-settings version
CONFIGS.append({CODE: bytes([0x49] * 8), (K, 7): b"\x02", (K, 4): b"\x09", (K, 3): b"DevOnly"})
CONFIGS.append({CODE: bytes([0x4A] * 8), (K, 7): b"\x03", (K, 5): (12).to_bytes(2, "big"), (K, 1): (321).to_bytes(2, "big"), (K, 2): (4).to_bytes(2, "big"), (K, 4): b"\x0b"})
# identifier version numerically zero (one byte, two bytes, zero-width value) next to a security code
CONFIGS.append({CODE: bytes([0x4B] * 8), (K, 1): (55).to_bytes(2, "big"), (K, 5): (6).to_bytes(2, "big"), (K, 7): b"\x00", (K, 6): b"V0"})
CONFIGS.append({CODE: bytes([0x4C] * 8), (K, 4): b"\x00\x00", (K, 3): b"DevV0"})
CONFIGS.append({CODE: bytes([0x4D] * 8), (K, 7): b"", (K, 6): b"EmptyVersion"})
# the empty configuration (still a configuration: one component holding the terminator only)
CONFIGS.append({})
# security codes of other lengths than 8: the update block carries (and is keyed by) the whole code
CONFIGS.append({CODE: bytes(range(0x50, 0x5C)), (K, 7): b"\x04", (K, 6): b"LongCode12"})
CONFIGS.append({CODE: bytes(range(0x60, 0x70)), (K, 1): (61).to_bytes(2, "big"), (K, 5): (2).to_bytes(2, "big"), (K, 7): b"\x05"})
CONFIGS.append({CODE: b"\x71\x72\x73", (K, 7): b"\x06", (K, 6): b"ShortCode3"})
NCFG = len(CONFIGS)
CUST_KEY = bytes([0x12, 0x34] * 8)


def derived_comments(conf):
    out = {}
    try:
        out["Configuration"] = cid.fmt(*cid.from_prj(conf))
    except cid.Missing:
        pass
    try:
        out["DeviceSettings"] = cid.fmt(*cid.from_dev(conf))
    except cid.Missing:
        pass
    v = conf.get((K, 0x20))
    if v is None:
        out["RequiresBusAddress"] = None
    elif any(v):
        out["RequiresBusAddress"] = "Yes"
    else:
        out["RequiresBusAddress"] = "?"
    return out


def config_identifier(conf):
    try:
        return cid.from_prj(conf)
    except cid.Missing:
        try:
            return cid.from_dev(conf)
        except cid.Missing:
            return None


class Model:
    def __init__(self):
        self.others = []  # list of (desc dict, blob, declared) in file order, configuration excluded
        self.config = None  # most recent configuration dict
        self.config_pos_last = True
        self.after_config = 0  # number of other components appended after the configuration
        self.comments = {}
        self.blocks = {}  # tag -> attrs
        self.had_blocks = False


def comp_value(c):
    return (dict(c.description), bytes(c.blob), c.actual_len)


class Runner:
    def __init__(self, ns, ctx):
        self.ns = ns
        self.ctx = ctx
        B = ns.bec2file
        # the file is built from a list object the caller keeps (and from which a sibling file is built as well): whatever happens
        # to this file later, the caller's list and the sibling stay as they were
        self.caller_list = []
        self.caller_comments = {"FirmwareId": "1100"}
        self.obj = B.Bec2File(ns.bf3file.Bf3File(self.caller_comments, self.caller_list), (), bytes(range(16)))
        self.sibling = ns.bf3file.Bf3File({"FirmwareId": "1100"}, self.caller_list)
        self.m = Model()
        self.m.comments = {"FirmwareId": "1100"}
        self.counter = 0
        # one dict object per configuration, handed to every call unchanged (callers do not copy; see the appnotes)
        self.cfgs = [dict(c) for c in CONFIGS]
        self.cfg_index = None  # position of the configuration among all components (model)
        self.order = []  # model order: list of ("o", value) / ("c",)

    # ---- operations -------------------------------------------------------------------------
    def apply(self, op):
        ns, B, BF = self.ns, self.ns.bec2file, self.ns.bf3file
        kind = op[0]
        f = self.obj.bf3file
        if kind == "set":
            conf = CONFIGS[op[1]]
            f.set_config(self.cfgs[op[1]])
            self.order = [e for e in self.order if e[0] != "c"] + [("c",)]
            self.m.config = conf
            self.m.extras = []
        elif kind == "setx":
            # with caller-supplied additional TLV blocks (a fresh list per call; they belong to THIS update only)
            conf = CONFIGS[op[1]]
            extras = [bytes((0x7A, 0x3F, op[1])) + b"additional block", b"\x7b\x01\x02"][: 1 + op[1] % 2]
            f.set_config(self.cfgs[op[1]], list(extras))
            self.order = [e for e in self.order if e[0] != "c"] + [("c",)]
            self.m.config = conf
            self.m.extras = extras
        elif kind == "comments":
            conf = CONFIGS[op[1]]
            f.derive_comments_from_config(self.cfgs[op[1]])
            d = derived_comments(conf)
            for k in ("Configuration", "DeviceSettings"):
                if k in d:
                    self.m.comments[k] = d[k]
                else:
                    self.m.comments.pop(k, None)
            r = d["RequiresBusAddress"]
            if r == "Yes":
                self.m.comments["RequiresBusAddress"] = "Yes"
            elif r is None:
                self.m.comments.pop("RequiresBusAddress", None)
            else:
                # a present all-zero / empty value: what it should mean is not stated, but the comment must still depend on this
                # configuration only - the expectation is what a FRESH object derives from the same configuration
                fresh = BF.Bf3File({})
                fresh.derive_comments_from_config(dict(conf))
                ref = fresh.comments.get("RequiresBusAddress")
                self.ctx.bin("bus_address_value_zero_or_empty_judged_against_fresh_object")
                if ref is None:
                    self.m.comments.pop("RequiresBusAddress", None)
                else:
                    self.m.comments["RequiresBusAddress"] = ref
        elif kind == "auth":
            conf = CONFIGS[op[1]]
            cust = op[2]
            had = bool(self.obj.auth_blocks)
            self.obj.derive_auth_blocks_from_config(self.cfgs[op[1]], cust_key_support=cust)
            ident = config_identifier(conf)
            code = conf.get(CODE)
            if not had:
                self.m.blocks = {}
            self.m.blocks[1 if cust else 3] = ("cust",) if cust else ("ecc", 0)
            if code is not None and ident is not None:
                self.m.blocks[2] = ("update", bytes(code), ident[3])
            self.m.fresh_derivation = not had
        elif kind in ("append", "insert0", "insertmid"):
            self.counter += 1
            desc = {0xC1: b"\x00", 0xC8: bytes([self.counter % 256])}
            if op[1] == 4:
                desc[0xC3] = b"\x00\x03"  # a TYPE tag of two bytes: NOT the configuration's tag value 03
            elif op[1] == 5:
                desc[0xC3] = b"\x03\x00"
            elif op[1]:
                desc[0xC3] = bytes([op[1] - 1])  # TYPE loader/peripheral/main
            comp = BF.Bf3Component(desc, bytes([self.counter % 256]) * (1 + self.counter % 20))
            val = comp_value(comp)
            if kind == "append":
                f.components.append(comp)
                self.order.append(("o", val))
            elif kind == "insert0":
                f.components.insert(0, comp)
                self.order.insert(0, ("o", val))
            else:
                pos = len(f.components) // 2
                f.components.insert(pos, comp)
                self.order.insert(pos, ("o", val))
        elif kind == "comment":
            self.counter += 1
            if op[1] == "set":
                f.comments["Note%d" % (self.counter % 3)] = "v%d" % self.counter
                self.m.comments["Note%d" % (self.counter % 3)] = "v%d" % self.counter
            elif op[1] == "setb":
                # unrelated comments whose KEY has a blank at an edge: other keys than the derived ones, they stay what they are
                k = (" Note1", "Configuration ", "Build Info ", " DeviceSettings", "RequiresBusAddress ")[self.counter % 5]
                f.comments[k] = self.m.comments[k] = "b%d" % self.counter
                self.ctx.bin("foreign_comment_key_with_blank_at_an_edge")
            else:
                f.comments.pop("FirmwareId", None)
                self.m.comments.pop("FirmwareId", None)
        elif kind == "writeread":
            self.writeread()
        elif kind == "writecheck":
            keep = self.obj
            self.writeread()  # what was written must read back as the model state (compare() runs on the parsed copy)
            self.written_copy = self.obj
            self.obj = keep
        else:
            raise ValueError(op)

    def writeread(self):
        ns, B, BF = self.ns, self.ns.bec2file, self.ns.bf3file
        obj = self.obj
        readable = [t for t in obj.auth_blocks if t in (1, 2)]
        buf = io.StringIO()
        if readable:
            encs = [B.SoftwareCustKeyEncryptor(CUST_KEY)]
            obj.write_file(buf, encs)
            dec = list(encs)
            ub = obj.auth_blocks.get(2)
            if ub is not None:
                dec.append(B.ConfigSecurityCodeEncryptor(ub.config_security_code))
            buf.seek(0)
            new = B.Bec2File.read_file(buf, dec)
            # an ECC block addressed to the published key cannot be opened here: it comes back as pass-through
            self.obj = new
            self.ctx.bin("op_writeread_bec2")
        else:
            obj.bf3file.write_file(buf, obj.session_key)
            buf.seek(0)
            nf = BF.Bf3File.read_file(buf, True, obj.session_key)
            self.obj = B.Bec2File(nf, list(obj.auth_blocks.values()), obj.session_key)
            self.ctx.bin("op_writeread_bf3")

    # ---- comparison ---------------------------------------------------------------------------
    def compare(self, op):
        ns = self.ns
        for i, c in enumerate(self.cfgs):
            if c != CONFIGS[i]:
                extra = sorted(set(c) ^ set(CONFIGS[i]))
                return "callers_configuration_dictionary_modified_by_the_library", {"config": i, "keys": extra[:4]}
        if self.caller_list != [] or list(self.sibling.components) != []:
            return "file_shares_the_callers_component_list", {"callers_list_len": len(self.caller_list), "sibling_components": len(self.sibling.components)}
        f = self.obj.bf3file
        comps = f.components
        is_cfg = []
        for c in comps:
            t = c.description.get(0xC3)
            is_cfg.append(t == b"\x03")
        ncfg = sum(is_cfg)
        want = 1 if self.m.config is not None else 0
        if ncfg != want:
            return "configuration_component_count", {"got": ncfg, "expected": want, "component_types": [c.description.get(0xC3) for c in comps]}
        # order of everything
        got_order = [("c",) if ic else ("o", comp_value(c)) for c, ic in zip(comps, is_cfg)]
        if [e[0] for e in got_order] != [e[0] for e in self.order]:
            return "configuration_component_position", {"got": "".join(e[0] for e in got_order), "expected": "".join(e[0] for e in self.order)}
        if got_order != self.order:
            return "other_component_changed_or_reordered", {}
        if op[0] == "set" and not is_cfg[-1]:
            return "configuration_not_last_after_set_config", {}
        if want:
            c = comps[is_cfg.index(True)]
            blob = bytes(c.blob[: c.actual_len])
            try:
                ops = []
                blocks = tlvcfg.split_blocks(blob)
                extras = getattr(self.m, "extras", [])
                if extras:
                    if blocks[-len(extras):] != list(extras):
                        return "configuration_component_does_not_encode_the_most_recent_configuration:additional_blocks", {"n_blocks": len(blocks), "tail": blocks[-3:], "expected_tail": list(extras)}
                    blocks = blocks[: -len(extras)]
                for b in blocks:
                    ops += tlvcfg.decode_block(b)[0]
            except tlvcfg.TlvError as e:
                return "configuration_blob_does_not_decode", {"err": str(e)}
            if ops != tlvcfg.expected_ops(self.m.config):
                return "configuration_component_does_not_encode_the_most_recent_configuration", {"n_ops": len(ops), "n_expected": len(tlvcfg.expected_ops(self.m.config))}
            if dict(c.description) != {0xC3: b"\x03", 0xC2: b"\x02", 0xC1: b"\x03", 0xC5: b"\x01"} or not c.encrypt_by_session_key:
                return "configuration_component_tags_or_flag", {"desc": dict(c.description), "flag": c.encrypt_by_session_key}
            if bytes(c.blob[c.actual_len :]).strip(b"\0"):
                return "configuration_padding_not_zero", {}
        # comments
        gc = dict(f.comments)
        wc = dict(self.m.comments)
        if wc.get("RequiresBusAddress") == "?":
            wc.pop("RequiresBusAddress")
            gc.pop("RequiresBusAddress", None)
        if gc != wc:
            keys = sorted(k for k in set(gc) | set(wc) if gc.get(k) != wc.get(k))
            derived = [k for k in keys if k in ("Configuration", "DeviceSettings", "RequiresBusAddress")]
            return ("derived_comment_differs:" + derived[0]) if derived else "foreign_comment_changed", {"got": {k: gc.get(k) for k in keys}, "expected": {k: wc.get(k) for k in keys}}
        # auth blocks
        B = ns.bec2file
        got = {}
        for t, b in self.obj.auth_blocks.items():
            if isinstance(b, B.UpdateAuthBlock):
                got[t] = ("update", bytes(b.config_security_code), b.version)
            elif isinstance(b, B.InitCustKeyAuthBlock):
                got[t] = ("cust",)
            elif isinstance(b, B.InitEccAuthBlock):
                got[t] = ("ecc", b.key_selector)
            else:
                got[t] = ("ecc", 0) if t == 3 else ("unknown", t)
            if b.tag != t:
                return "auth_block_map_key_differs_from_block_tag", {"key": t, "tag": b.tag}
        if got != self.m.blocks:
            what = "auth_blocks_after_first_derivation" if op[0] == "auth" and getattr(self.m, "fresh_derivation", False) else "auth_blocks"
            return what, {"got": got, "expected": self.m.blocks}
        return None, None


ALPHA_SMALL = [("set", 0), ("set", 1), ("comments", 0), ("comments", 3), ("auth", 0, False), ("auth", 3, True), ("append", 3), ("insert0", 0), ("writeread",), ("writecheck",)]
ALPHA_FULL = (
    [("set", i) for i in range(NCFG)] + [("setx", i) for i in (0, 1, 3, 0, 1)] + [("comments", i) for i in range(NCFG)] + [("auth", i, c) for i in range(NCFG) for c in (False, True)]
    + [("append", t) for t in (0, 1, 2, 3, 4, 5)] + [("insert0", t) for t in (0, 1, 3, 4)] + [("insertmid", t) for t in (0, 2, 4)] + [("writeread",), ("writecheck",), ("writecheck",), ("comment", "set"), ("comment", "setb"), ("comment", "del")]
)


def run_sequence(ns, ctx, seq):
    r = Runner(ns, ctx)
    ctx.ev()
    ctx.distinct(seq)
    rp = {"seq": [list(o) for o in seq]}
    saw_typeless_before = saw_typeless_after = False
    for i, op in enumerate(seq):
        ctx.bin("op_" + op[0])
        if op[0] in ("append", "insert0", "insertmid") and op[1] in (4, 5):
            ctx.bin("component_with_two_byte_type_tag")
        if op[0] in ("set", "setx") and not CONFIGS[op[1]]:
            ctx.bin("empty_configuration")
        if op[0] in ("append", "insert0", "insertmid") and op[1] == 0:
            if r.m.config is None or op[0] == "insert0":
                ctx.bin("typeless_component_before_configuration")
            if r.m.config is not None and op[0] == "append":
                ctx.bin("typeless_component_after_configuration")
        if op[0] in ("set", "setx") and r.m.config is not None and r.m.config is not CONFIGS[op[1]]:
            ctx.bin("two_different_configurations_in_a_row")
        if op[0] == "auth" and r.obj.auth_blocks:
            prev = set(r.obj.auth_blocks)
            if (1 in prev and not op[2]) or (3 in prev and op[2]):
                ctx.bin("derive_after_derive_other_mode")
        try:
            r.apply(op)
            ctx.mon("operation")
        except Exception as e:
            ctx.violation("operation_raises:" + op[0], {"step": i, "op": op, "exc": fmt_exc(e)}, rp)
            return
        if op[0] == "writecheck":
            # compare the parsed copy of what was written, then continue with the original object
            keep = r.obj
            r.obj = r.written_copy
            saved_blocks = dict(r.m.blocks)
            # an ECC block addressed to the published key comes back as pass-through with the same tag: same model view
            what, detail = r.compare(op)
            r.obj = keep
            if what:
                ctx.violation("written_file_does_not_reflect_current_state:" + what, dict(detail, step=i, op=op, prefix=[list(o) for o in seq[: i + 1]]), rp)
                return
        what, detail = r.compare(op)
        ctx.mon("lockstep_compare")
        if what:
            ctx.violation(what, dict(detail, step=i, op=op, prefix=[list(o) for o in seq[: i + 1]]), rp)
            return


def plan(tier, seed):
    q = tier == "quick"
    jobs = [{"name": "enum%02d" % i, "spec": {"kind": "enum", "res": i, "maxlen": 4 if q else 5}} for i in range(NSH)]
    jobs += [{"name": "rand%02d" % i, "spec": {"kind": "rand", "n": 250 if q else 25000}} for i in range(NSH)]
    return jobs


def mandatory_bins(tier):
    return ["op_set", "op_setx", "component_with_two_byte_type_tag", "empty_configuration", "op_comments", "op_auth", "op_append", "op_insert0", "op_insertmid", "op_writeread", "op_writecheck", "op_comment", "op_writeread_bec2", "op_writeread_bf3",
            "typeless_component_before_configuration", "typeless_component_after_configuration", "two_different_configurations_in_a_row", "derive_after_derive_other_mode", "all_sequences_up_to_bound", "every_ordered_pair_of_configurations", "bus_address_value_zero_or_empty_judged_against_fresh_object", "foreign_comment_key_with_blank_at_an_edge"]


def finish(agg, tier):
    return {"exhaustive": True, "exhaustive_scope": "all operation sequences of length <= %d over the reduced 10-letter alphabet (random longer ones on top)" % (4 if tier == "quick" else 5)}


def run_shard(spec, ctx):
    ns = load()
    rng = ctx.rng
    if spec["kind"] == "enum":
        k = 0
        for ln in range(1, spec["maxlen"] + 1):
            for seq in itertools.product(ALPHA_SMALL, repeat=ln):
                k += 1
                if k % NSH != spec["res"]:
                    continue
                if not any(o[0] in ("set", "comments", "auth") for o in seq):
                    continue
                run_sequence(ns, ctx, seq)
        # every ordered pair (and triple with a write+read in between) of configurations for each derive / set operation
        k = 0
        for a in range(NCFG):
            for b in range(NCFG):
                for mk in (lambda i: ("comments", i), lambda i: ("set", i), lambda i: ("auth", i, False), lambda i: ("auth", i, True)):
                    for mid in ((), (("writeread",),), (("insert0", 0),)):
                        k += 1
                        if k % NSH != spec["res"]:
                            continue
                        pre = (("auth", 0, True),) if mid and mid[0][0] == "writeread" else ()
                        run_sequence(ns, ctx, pre + (mk(a),) + mid + (mk(b),) + (("writecheck",),) if pre else (mk(a),) + mid + (mk(b),))
                        ctx.bin("every_ordered_pair_of_configurations")
        ctx.bin("all_sequences_up_to_bound")
        if spec["res"] == 0:
            ctx.sample({"sequence": [list(o) for o in (("insert0", 0), ("set", 0), ("set", 1), ("writeread",))]})
        return
    for i in range(spec["n"]):
        ln = rng.randrange(5, 26)
        seq = tuple(rng.choice(ALPHA_FULL) for _ in range(ln))
        run_sequence(ns, ctx, seq)
        if i == 0:
            ctx.sample({"sequence": [list(o) for o in seq]})


def replay(rec, ctx):
    ns = load()
    run_sequence(ns, ctx, tuple(tuple(o) for o in rec["seq"]))
