"""C08 - AES auth-block container: exact framing, exact inverse, errors on wrong key/CRC.

Oracle: bvm.refs.container (frame model) + OpenSSL AES-128-CBC.
"""
from ..ctx import fmt_exc
from ..load import load
from ..refs import container as model
from ..refs import crc as crcref
from ..refs import ossl

ID = "C08"
LEVEL = "exploration"
RULE = (
    "case = (encryptor kind, key/security code, payload, customer-key config); every payload length 0..253 "
    "is enumerated, with directed contents (all-zero, trailing 00 runs, contents solved so that the CRC high/low/both "
    "bytes are 00) plus seeded random contents; each case is wrapped by the real encryptor, the ciphertext is opened "
    "with OpenSSL and compared with the frame model, unwrapped by the real decryptor (same and fresh object), "
    "unwrapped under other keys, and model-built frames with a wrong marker / wrong CRC are offered to the real "
    "decryptor. distinct = digest of (kind, key, payload, customer key, position); non-trivial = payload length >= 1"
)
ASSUMPTIONS = [
    "the CRC of a frame is its last two bytes (as the stated layout ends with 'the payload and its CRC-16'): a valid frame followed by further blocks therefore counts as a frame with a wrong CRC and has to be refused, unless what is returned is covered by the trailing two bytes",
    "payloads may be handed over as bytes, bytearray or memoryview; the caller's buffer must be left unchanged",
    "OpenSSL AES-128-CBC is the independent cipher; the frame model is written from the property text",
    "'reported as an error' = any exception from decrypt (the exception type is C14's business)",
    "a wrong-key unwrap that yields 'B' and a matching CRC by chance (p ~ 2^-24) is re-tried under 3 more keys before it is called a violation",
    "security codes of 0..40 bytes are judged (the key is the first 16 bytes of SHA-256 of the whole code, as stated); 8 bytes is the documented size",
]
TIMEOUT = {"quick": 900, "thorough": 4 * 3600}
OPTIMIZED_SHARDS = ("len05", "len03")  # these shards also run under python -O
NSH = 16


def plan(tier, seed):
    jobs = [{"name": "len%02d" % i, "spec": {"res": i}} for i in range(NSH)]
    # the FIRST wraps / unwraps of a process made by several threads at once, each with its own encryptor (fresh process per shard)
    jobs += [{"name": "firstuse%02d" % i, "spec": {"kind": "firstuse", "i": i}} for i in range(4 if tier == "quick" else 32)]
    return jobs


def mandatory_bins(tier):
    b = ["L%d" % L for L in range(254)]
    b += ["crc_lo_%02x" % v for v in range(256)] + ["crc_hi_%02x" % v for v in range(256)]
    b += ["crc_lo_00_solved", "crc_hi_00_solved", "crc_both_00_solved", "trailing_zero_payload", "key_ends_00",
          "wrong_key", "wrong_marker", "wrong_crc", "custkey_pos_first", "custkey_pos_last", "custkey_mismatch", "custkey_pattern_before_slot", "shared_encryptor_object_sequence", "customer_key_attributes_reassigned_between_calls", "security_code_length_other_than_8", "payload_given_as_bytearray", "payload_given_as_memoryview", "frame_followed_by_extra_blocks", "length_byte_rewritten", "one_encryptor_object_used_by_concurrent_threads", "customer_key_not_configured_but_position_given", "first_wraps_of_the_process_made_by_concurrent_threads",
          "security_code", "security_code_all_zero", "model_frame_accepted", "same_object_reuse"]
    return b


def finish(agg, tier):
    bins = agg["bins"]
    ls = [k for k in bins if k[0] == "L" and k[1:].isdigit()]
    lo = [k for k in bins if k.startswith("crc_lo_") and len(k) == 9]
    hi = [k for k in bins if k.startswith("crc_hi_") and len(k) == 9]
    out = {
        "payload_lengths_covered": len(ls),
        "min_cases_per_length": min(bins[k] for k in ls) if ls else 0,
        "crc_low_byte_values_seen": len(lo),
        "crc_high_byte_values_seen": len(hi),
        "exhaustive": False,
    }
    for k in ls + lo + hi:
        if k not in ("crc_lo_00", "crc_hi_00"):
            del bins[k]
    return out


def _raises(fn, ctx):
    try:
        fn()
    except Exception as e:  # noqa: any exception is "reported as an error" (C08); type is judged by C14
        ctx.exc(e)
        return True
    return False


def check_case(ns, ctx, kind, key, payload, ck=None, pos=None, code=None, nwrong=2, tamper=True):
    """kind: 'cust' (SoftwareCustKeyEncryptor) or 'code' (ConfigSecurityCodeEncryptor)"""
    B = ns.bec2file
    rp = {"kind": kind, "key": key.hex() if key else None, "payload": payload.hex(), "ck": ck.hex() if ck else None, "pos": pos, "code": code.hex() if code else None}
    L = len(payload)

    def mk(k=None, c=None, ckey=ck, p=pos):
        if kind == "cust":
            return B.SoftwareCustKeyEncryptor(k if k is not None else key, ckey, p) if ckey is not None else B.SoftwareCustKeyEncryptor(k if k is not None else key)
        return B.ConfigSecurityCodeEncryptor(c if c is not None else code)

    aeskey = key if kind == "cust" else model.security_code_key(code)
    if ck is not None:
        inner = bytearray(payload)
        inner[pos : pos + 10] = ck
        inner = bytes(inner)
        back = bytearray(payload)
        back[pos : pos + 10] = bytes(10)
        back = bytes(back)
    else:
        inner = back = payload
    ctx.ev()
    ctx.distinct(kind, aeskey, payload, ck, pos)
    c = crcref.crc16(inner)
    ctx.bin("L%d" % L)
    ctx.bin("crc_lo_%02x" % (c & 0xFF))
    ctx.bin("crc_hi_%02x" % (c >> 8))
    if L and payload[-1] == 0:
        ctx.bin("trailing_zero_payload")
    if aeskey[-1] == 0:
        ctx.bin("key_ends_00")
    enc = mk()
    # --- wrap ----------------------------------------------------------------
    try:
        ct = enc.encrypt(payload)
        ctx.mon("encrypt")
    except Exception as e:
        ctx.violation("wrap_raises", {"L": L, "exc": fmt_exc(e)}, rp)
        return
    expect = model.frame(inner)
    if len(ct) % 16 or len(ct) != len(expect):
        ctx.violation("ciphertext_length", {"L": L, "got": len(ct), "expected": len(expect)}, rp)
        return
    fr = ossl.aes_cbc(aeskey, ossl.ZERO_IV, ct, False)
    ctx.mon("frame_vs_model")
    if fr != expect:
        if fr[:1] != b"B":
            what = "marker"
        elif fr[1] != L + 2:
            what = "length_byte"
        elif fr[-2:] != expect[-2:]:
            what = "crc"
        elif fr[2 : 2 + model.pad_count(L)] != bytes(model.pad_count(L)):
            what = "padding"
        else:
            what = "payload" if ck is None else "payload_or_customer_key_slot"
        ctx.violation("frame_differs_from_model:" + what, {"L": L, "got": fr, "expected": expect}, rp)
        return
    # --- unwrap with the same object, then with a fresh one --------------------
    for who, dec in (("same", enc), ("fresh", mk())):
        try:
            got = dec.decrypt(ct)
            ctx.mon("decrypt")
        except Exception as e:
            ctx.violation("unwrap_of_own_frame_raises", {"L": L, "who": who, "exc": fmt_exc(e), "crc": c, "payload_tail": inner[-3:]}, rp)
            break
        if got != back:
            ctx.violation("unwrap_returns_other_payload" + ("" if ck is None else ":customer_key_slot"), {"L": L, "who": who, "got": got, "expected": back}, rp)
            break
        if who == "same":
            ctx.bin("same_object_reuse")
    # --- frame produced by the model must be accepted too (independent writer) ---
    try:
        got = mk().decrypt(ossl.aes_cbc(aeskey, ossl.ZERO_IV, expect, True))
        ctx.bin("model_frame_accepted")
        if got != back:
            ctx.violation("unwrap_of_model_frame_returns_other_payload", {"L": L, "got": got, "expected": back}, rp)
    except Exception as e:
        ctx.violation("unwrap_of_model_frame_raises", {"L": L, "exc": fmt_exc(e)}, rp)
    # --- wrong key -------------------------------------------------------------
    rng = ctx.rng
    for _ in range(nwrong):
        def other():
            if kind == "cust":
                k2 = rng.randbytes(16)
                while k2 == key:
                    k2 = rng.randbytes(16)
                return mk(k=k2)
            c2 = rng.randbytes(8)
            while c2 == code:
                c2 = rng.randbytes(8)
            return mk(c=c2)

        ctx.bin("wrong_key")
        if not _raises(lambda: other().decrypt(ct), ctx):
            again = sum(0 if _raises(lambda: other().decrypt(ct), ctx) else 1 for _ in range(3))
            if again:
                ctx.violation("frame_made_under_other_key_accepted", {"L": L, "accepted_retries": again}, rp)
            else:
                ctx.note("wrong_key_chance_hit")
    if not tamper:
        return
    # --- wrong marker / wrong CRC, built by the model -----------------------------
    for marker in (b"A", b"C", b"b", b"\x00"):
        bad = marker + expect[1:]
        ctx.bin("wrong_marker")
        if not _raises(lambda: mk().decrypt(ossl.aes_cbc(aeskey, ossl.ZERO_IV, bad, True)), ctx):
            ctx.violation("wrong_marker_accepted", {"L": L, "marker": marker}, rp)
    for delta in (1, -1, 0x100, 0x8000):
        c2 = (c + delta) & 0xFFFF
        bad = expect[:-2] + c2.to_bytes(2, "big")
        ctx.bin("wrong_crc")
        if not _raises(lambda: mk().decrypt(ossl.aes_cbc(aeskey, ossl.ZERO_IV, bad, True)), ctx):
            ctx.violation("wrong_crc_accepted", {"L": L, "crc": c, "offered": c2}, rp)
    if L >= 1:
        # CRC matching a different payload: flip one payload bit, keep the CRC
        i = rng.randrange(L)
        bad = bytearray(expect)
        bad[2 + model.pad_count(L) + i] ^= 1 << rng.randrange(8)
        ctx.bin("wrong_crc")
        if not _raises(lambda: mk().decrypt(ossl.aes_cbc(aeskey, ossl.ZERO_IV, bytes(bad), True)), ctx):
            ctx.violation("wrong_crc_accepted", {"L": L, "what": "payload bit flipped, crc kept"}, rp)
    # --- customer key mismatch ------------------------------------------------------
    if ck is not None:
        ck2 = bytearray(ck)
        ck2[rng.randrange(10)] ^= 1 << rng.randrange(8)
        ctx.bin("custkey_mismatch")
        if not _raises(lambda: mk(ckey=bytes(ck2)).decrypt(ct), ctx):
            ctx.violation("customer_key_mismatch_accepted", {"L": L, "pos": pos}, rp)


def contents_for(L, rng, nrand):
    out = []
    if L == 0:
        return [(b"", "empty")]
    if L == 1:
        return [(bytes((v,)), "all1") for v in range(256)]
    out.append((bytes(L), "all_zero"))
    out.append((bytes([0xFF] * L), "all_ff"))
    for z in (1, 2, 3, 15, 16, 17):
        if z < L:
            out.append((rng.randbytes(L - z).rstrip(b"\0") .ljust(L - z, b"\x01") + bytes(z), "trail%d" % z))
    pre = rng.randbytes(L - 2)
    out.append((pre + model.solve_crc_suffix(pre, want_lo=0), "crc_lo_00_solved"))
    pre = rng.randbytes(L - 2)
    out.append((pre + model.solve_crc_suffix(pre, want_hi=0), "crc_hi_00_solved"))
    pre = rng.randbytes(L - 2)
    out.append((pre + model.solve_crc_suffix(pre, 0, 0), "crc_both_00_solved"))
    for _ in range(nrand):
        out.append((rng.randbytes(L), "random"))
    return out


def run_firstuse(ns, ctx, spec):
    from ..sched import yieldrun

    B = ns.bec2file
    rng = ctx.rng
    i = spec["i"]
    nthreads = (2, 3, 4, 8)[i % 4]
    codes = yieldrun.code_objects_of_module(ns.bec2file, ns.crypto, ns.plugin)
    if i % 2:
        codes += yieldrun.code_objects_of(ns.aes.AESModeOfOperationCBC, ns.aes.AES)
    cases = []
    for t in range(nthreads):
        kind_ = ("cust", "code", "custkey")[(i + t) % 3]
        k_ = rng.randbytes(16)
        c_ = rng.randbytes(8)
        pl = rng.randbytes(rng.choice((0, 1, 12, 13, 26, 40, 100, 253)) if kind_ != "custkey" else rng.choice((10, 26, 100)))
        ck = rng.randbytes(10) if kind_ == "custkey" else None
        pos = rng.randrange(len(pl) - 9) if ck else None
        cases.append((kind_, k_, c_, pl, ck, pos))
        ctx.distinct("firstuse", kind_, k_, c_, pl, ck, pos)

    def body(case):
        kind_, k_, c_, pl, ck, pos = case

        def mk():
            if kind_ == "code":
                return B.ConfigSecurityCodeEncryptor(c_)
            return B.SoftwareCustKeyEncryptor(k_, ck, pos) if ck else B.SoftwareCustKeyEncryptor(k_)

        def run():
            ct = mk().encrypt(pl)
            return ct, mk().decrypt(ct)

        return run

    bodies = [body(c) for c in cases]
    res, y = yieldrun.run_concurrently(bodies, codes, sleep=0.0002, max_yields=15000, timeout=150, stagger=(0.0, 0.002, 0.01, 0.03)[(i // 4) % 4])
    ctx.bin("first_wraps_of_the_process_made_by_concurrent_threads")
    ctx.mon("line_yields_injected", y)

    def judge(case, r, how):
        kind_, k_, c_, pl, ck, pos = case
        rp = {"kind": "firstuse", "i": i}
        aes_ = model.security_code_key(c_) if kind_ == "code" else k_
        inner, back = pl, pl
        if ck:
            inner = pl[:pos] + ck + pl[pos + 10:]
            back = pl[:pos] + bytes(10) + pl[pos + 10:]
        ctx.ev()
        ctx.mon("encrypt")
        ctx.mon("decrypt")
        ctx.mon("frame_vs_model")
        if r[0] == "exc":
            ctx.violation("wrap_or_unwrap_raises:" + how, {"exc": r[1][:200], "threads": nthreads, "kind": kind_}, rp)
        elif len(r[1][0]) % 16 or ossl.aes_cbc(aes_, ossl.ZERO_IV, r[1][0], False) != model.frame(inner):
            ctx.violation("frame_differs_from_model:" + how, {"L": len(pl), "threads": nthreads, "kind": kind_}, rp)
        elif r[1][1] != back:
            ctx.violation("unwrap_returns_other_payload:" + how, {"L": len(pl), "threads": nthreads, "kind": kind_}, rp)

    for case, r in zip(cases, res):
        if r is None:
            ctx.note("thread_still_running_after_timeout(inconclusive)")
            continue
        judge(case, r, "first_use_by_concurrent_threads")
    # the same operations again, one after the other: whatever the first uses initialised must be sound
    for case, fn in zip(cases, bodies):
        try:
            r = ("ok", fn())
        except Exception as e:
            r = ("exc", repr(e))
        judge(case, r, "after_first_use_by_concurrent_threads")


def run_shard(spec, ctx):
    ns = load()
    if spec.get("kind") == "firstuse":
        run_firstuse(ns, ctx, spec)
        return
    rng = ctx.rng
    quick = ctx.tier == "quick"
    nrand = 6 if quick else 150
    nwrong = 2 if quick else 12
    first = True
    for L in range(spec["res"], 254, NSH):
        for payload, tag in contents_for(L, rng, nrand):
            if tag.endswith("_solved"):
                ctx.bin(tag)
            r = rng.random()
            key = rng.randbytes(16)
            if r < 0.15:
                key = key[:-1] + b"\0"
            elif r < 0.2:
                key = key[:-3] + b"\0\0\0"
            elif r < 0.23:
                key = bytes(16)
            check_case(ns, ctx, "cust", key, payload, nwrong=nwrong, tamper=(tag != "all1" or payload[0] % 16 == 0))
            if first:
                ctx.sample({"kind": "cust", "key": key, "payload": payload, "frame": model.frame(payload)})
                first = False
            # security-code variant
            if tag in ("random", "all_zero", "crc_lo_00_solved", "crc_both_00_solved", "trail1", "empty") or (tag == "all1" and payload[0] % 32 == 0):
                code = rng.randbytes(8)
                rr = rng.random()
                if rr < 0.1:
                    code = bytes(8)
                    ctx.bin("security_code_all_zero")
                elif rr < 0.25:
                    code = code[:-1] + b"\0"
                ctx.bin("security_code")
                check_case(ns, ctx, "code", None, payload, code=code, nwrong=1 if quick else 4, tamper=not quick or tag != "random")
            # customer key variant
            if L >= 10 and tag in ("random", "all_zero", "trail1", "crc_lo_00_solved", "all_ff"):
                positions = {0: "first", L - 10: "last"}
                positions.setdefault(rng.randrange(L - 9), "mid")
                for pos, pn in positions.items():
                    ck = rng.randbytes(10)
                    rr = rng.random()
                    if rr < 0.1:
                        ck = bytes(10)
                    elif rr < 0.3:
                        ck = ck[:-1] + b"\0"
                    if pn in ("first", "last"):
                        ctx.bin("custkey_pos_" + pn)
                    if quick and pn == "mid" and tag != "random":
                        continue
                    check_case(ns, ctx, "cust", key, payload, ck=ck, pos=pos, nwrong=1, tamper=(tag == "random"))
                    if pn != "mid" and tag in ("random", "all_ff"):
                        check_unconfigured(ns, ctx, key, payload, pos)
    # one encryptor object reused for a whole sequence of wraps of varying length: every frame must still be exact
    B = ns.bec2file
    for kind in ("cust", "code"):
        k_ = rng.randbytes(16)
        c_ = rng.randbytes(8)
        shared = B.SoftwareCustKeyEncryptor(k_) if kind == "cust" else B.ConfigSecurityCodeEncryptor(c_)
        aes_ = k_ if kind == "cust" else model.security_code_key(c_)
        lens = [40, 0, 12, 28, 11, 27, 253, 1, 13, 29, 45, 5, 60, 3] + [rng.randrange(254) for _ in range(40)]
        for L in lens:
            payload = bytes([0xAA]) * L if L % 2 == 0 else rng.randbytes(L)
            ctx.ev()
            ctx.bin("shared_encryptor_object_sequence")
            ctx.distinct("shared", kind, aes_, L, payload)
            rp = {"kind": kind, "key": k_.hex() if kind == "cust" else None, "payload": payload.hex(), "ck": None, "pos": None, "code": c_.hex() if kind == "code" else None, "shared_sequence": lens}
            try:
                ct = shared.encrypt(payload)
                fr = ossl.aes_cbc(aes_, ossl.ZERO_IV, ct, False) if len(ct) % 16 == 0 and ct else b""
                if fr != model.frame(payload):
                    ctx.violation("frame_depends_on_earlier_calls_of_the_same_encryptor_object", {"L": L, "got": fr, "expected": model.frame(payload)}, rp)
                    break
                if shared.decrypt(ct) != payload:
                    ctx.violation("unwrap_returns_other_payload:shared_object", {"L": L}, rp)
                    break
            except Exception as e:
                ctx.violation("wrap_raises", {"L": L, "exc": fmt_exc(e)}, rp)
                break
    # one customer-key encryptor whose PUBLIC attributes (customer_key, customer_key_pos) are reassigned between calls:
    # every call must use the configuration the object has at that moment
    if spec["res"] % 3 == 0:
        k_ = rng.randbytes(16)
        shared = B.SoftwareCustKeyEncryptor(k_) if spec["res"] % 2 else B.SoftwareCustKeyEncryptor(k_, rng.randbytes(10), 3)
        steps = []
        for _ in range(14):
            r = rng.random()
            if r < 0.25:
                shared.customer_key = None
                steps.append("key=None")
            elif r < 0.6:
                shared.customer_key = rng.randbytes(10)
                if shared.customer_key_pos is None:
                    shared.customer_key_pos = 0
                steps.append("key=new")
            else:
                shared.customer_key_pos = rng.choice((0, 1, 5, 16, 30))
                steps.append("pos=%d" % shared.customer_key_pos)
            ck, pos = shared.customer_key, shared.customer_key_pos
            payload = rng.randbytes(rng.randrange(40, 80))
            inner = payload if ck is None else payload[:pos] + ck + payload[pos + 10 :]
            back = payload if ck is None else payload[:pos] + bytes(10) + payload[pos + 10 :]
            ctx.ev()
            ctx.bin("customer_key_attributes_reassigned_between_calls")
            ctx.distinct("attrs", k_, payload, ck, pos)
            rp = {"kind": "cust", "key": k_.hex(), "payload": payload.hex(), "ck": ck.hex() if ck else None, "pos": pos, "code": None, "attribute_history": list(steps)}
            try:
                ct = shared.encrypt(payload)
                fr = ossl.aes_cbc(k_, ossl.ZERO_IV, ct, False) if ct and len(ct) % 16 == 0 else b""
                if fr != model.frame(inner):
                    ctx.violation("frame_ignores_reassigned_customer_key_attributes", {"history": steps, "got": fr, "expected": model.frame(inner)}, rp)
                    break
                if shared.decrypt(ct) != back:
                    ctx.violation("unwrap_ignores_reassigned_customer_key_attributes", {"history": steps}, rp)
                    break
                if ck is not None:
                    foreign = bytes((b ^ 0x21) for b in ck)
                    bad = model.frame(payload[:pos] + foreign + payload[pos + 10 :])
                    if not _raises(lambda: shared.decrypt(ossl.aes_cbc(k_, ossl.ZERO_IV, bad, True)), ctx):
                        ctx.violation("frame_with_foreign_customer_key_accepted_after_attribute_reassignment", {"history": steps}, rp)
                        break
            except Exception as e:
                ctx.violation("wrap_raises", {"L": len(payload), "exc": fmt_exc(e), "history": steps}, rp)
                break
    # payload handed over as bytearray / memoryview: same frame, and the caller's buffer is left as it was
    if spec["res"] % 4 == 2:
        for kind_ in ("cust", "code", "cust_ck"):
            for L_ in (0, 1, 11, 12, 27, 40, 253):
                for tname in ("bytearray", "memoryview"):
                    if kind_ == "cust_ck" and L_ < 10:
                        continue
                    payload = rng.randbytes(L_)
                    k_ = rng.randbytes(16)
                    c_ = rng.randbytes(8)
                    ck_ = rng.randbytes(10) if kind_ == "cust_ck" else None
                    enc_ = B.ConfigSecurityCodeEncryptor(c_) if kind_ == "code" else (B.SoftwareCustKeyEncryptor(k_, ck_, 0) if ck_ else B.SoftwareCustKeyEncryptor(k_))
                    aes_ = model.security_code_key(c_) if kind_ == "code" else k_
                    buf_ = bytearray(payload)
                    arg = buf_ if tname == "bytearray" else memoryview(bytes(payload))
                    inner = (ck_ + payload[10:]) if ck_ else payload
                    ctx.ev()
                    ctx.bin("payload_given_as_" + tname)
                    ctx.distinct("buftype", kind_, L_, tname, payload, aes_)
                    rp = {"kind": "code" if kind_ == "code" else "cust", "key": k_.hex(), "payload": payload.hex(), "ck": ck_.hex() if ck_ else None, "pos": 0 if ck_ else None, "code": c_.hex(), "payload_type": tname}
                    try:
                        ct = enc_.encrypt(arg)
                        fr = ossl.aes_cbc(aes_, ossl.ZERO_IV, ct, False) if ct and len(ct) % 16 == 0 else b""
                        if fr != model.frame(inner):
                            ctx.violation("frame_differs_from_model:payload_given_as_" + tname, {"L": L_, "got": fr, "expected": model.frame(inner)}, rp)
                        elif bytes(buf_) != payload:
                            ctx.violation("wrapping_modifies_the_callers_buffer", {"L": L_, "before": payload, "after": bytes(buf_)}, rp)
                        elif tname == "bytearray" and enc_.encrypt(buf_) and ossl.aes_cbc(aes_, ossl.ZERO_IV, enc_.encrypt(buf_), False) != model.frame(inner):
                            ctx.violation("frame_differs_from_model:same_buffer_wrapped_again", {"L": L_}, rp)
                    except Exception as e:
                        ctx.violation("wrap_raises", {"L": L_, "exc": fmt_exc(e), "payload_type": tname}, rp)
    # a valid frame followed by further 16-byte blocks: the last two bytes of what decrypts are then not the CRC of the payload
    # in front of them - the frame has a wrong CRC and must be refused
    if spec["res"] % 4 == 3:
        for kind_ in ("cust", "code"):
            for L_ in (0, 5, 11, 12, 40, 200):
                payload = rng.randbytes(L_)
                k_ = rng.randbytes(16)
                c_ = rng.randbytes(8)
                aes_ = model.security_code_key(c_) if kind_ == "code" else k_
                mk_ = (lambda: B.ConfigSecurityCodeEncryptor(c_)) if kind_ == "code" else (lambda: B.SoftwareCustKeyEncryptor(k_))
                for extra in (rng.randbytes(16), bytes(16), model.frame(rng.randbytes(3)), rng.randbytes(48)):
                    ctx.ev()
                    ctx.bin("frame_followed_by_extra_blocks")
                    ct = ossl.aes_cbc(aes_, ossl.ZERO_IV, model.frame(payload) + extra, True)
                    rp = {"kind": kind_, "key": k_.hex(), "payload": payload.hex(), "ck": None, "pos": None, "code": c_.hex(), "extra": extra.hex()}
                    try:
                        got = mk_().decrypt(ct)
                    except Exception as e:
                        ctx.exc(e)
                        continue
                    tail_ok = len(got) + 2 <= len(model.frame(payload) + extra) and crcref.crc16(got) == int.from_bytes((model.frame(payload) + extra)[-2:], "big")
                    if not tail_ok:
                        ctx.violation("frame_followed_by_extra_blocks_accepted", {"L": L_, "extra_len": len(extra), "returned": got}, rp)
    # the length byte of a valid frame rewritten to every other value (right key, marker intact): accepted only if the bytes the
    # new length byte points to really are a payload followed by its CRC
    if spec["res"] % 4 == 0:
        for kind_ in ("cust", "code"):
            for L_ in (0, 14, 17, 40):
                payload = rng.randbytes(L_)
                k_ = rng.randbytes(16)
                c_ = rng.randbytes(8)
                aes_ = model.security_code_key(c_) if kind_ == "code" else k_
                dec_ = B.ConfigSecurityCodeEncryptor(c_) if kind_ == "code" else B.SoftwareCustKeyEncryptor(k_)
                good = model.frame(payload)
                for lb in range(256):
                    if lb == good[1]:
                        continue
                    fr = good[:1] + bytes((lb,)) + good[2:]
                    ctx.ev()
                    ctx.bin("length_byte_rewritten")
                    try:
                        got = dec_.decrypt(ossl.aes_cbc(aes_, ossl.ZERO_IV, fr, True))
                    except Exception as e:
                        ctx.exc(e)
                        continue
                    justified = 2 <= lb <= len(fr) and crcref.crc16(fr[len(fr) - lb : -2]) == int.from_bytes(fr[-2:], "big") and bytes(got) == fr[len(fr) - lb : -2]
                    if not justified:
                        ctx.violation("frame_with_wrong_length_byte_accepted", {"frame_len": len(fr), "length_byte": lb, "correct": good[1], "returned_len": len(got)},
                                      {"kind": kind_, "key": k_.hex(), "payload": payload.hex(), "ck": None, "pos": None, "code": c_.hex(), "length_byte": lb})
                        break
    # ONE encryptor object used by several threads at once (wrapping and unwrapping), interleaved at every source line of the
    # container code and the cipher adapter
    if spec["res"] % 8 == 5:
        from ..sched import yieldrun

        codes = yieldrun.code_objects_of(B.AesEncryptorMixin, B.SoftwareCustKeyEncryptor, ns.plugin.AES128Proxy, ns.aes.AESModeOfOperationCBC)
        for rnd in range(4):
            k_ = rng.randbytes(16)
            c_ = rng.randbytes(8)
            kind_ = ("cust", "code")[rnd % 2]
            shared = B.ConfigSecurityCodeEncryptor(c_) if kind_ == "code" else B.SoftwareCustKeyEncryptor(k_)
            aes_ = model.security_code_key(c_) if kind_ == "code" else k_
            pls = [rng.randbytes(rng.choice((12, 26, 40, 100))) for _ in range(3)]

            def body(i):
                def run():
                    ct = shared.encrypt(pls[i])
                    return ct, shared.decrypt(ct)
                return run

            res, y = yieldrun.run_concurrently([body(i) for i in range(3)], codes, sleep=0.0001, max_yields=12000)
            ctx.ev(3)
            ctx.bin("one_encryptor_object_used_by_concurrent_threads")
            ctx.mon("line_yields_injected", y)
            for i, r in enumerate(res):
                rp = {"kind": kind_, "key": k_.hex(), "payload": pls[i].hex(), "ck": None, "pos": None, "code": c_.hex(), "concurrent": True}
                if r is None:
                    ctx.note("thread_still_running_after_timeout(inconclusive)")
                elif r[0] == "exc":
                    ctx.violation("unwrap_of_own_frame_raises", {"exc": r[1], "who": "one object, concurrent threads"}, rp)
                elif ossl.aes_cbc(aes_, ossl.ZERO_IV, r[1][0], False) != model.frame(pls[i]) or r[1][1] != pls[i]:
                    ctx.violation("frame_differs_from_model:one_object_used_by_concurrent_threads", {"L": len(pls[i])}, rp)
    # security codes of other lengths than 8 (the key is SHA-256 of the WHOLE code), and two codes sharing their first 8 bytes
    if spec["res"] % 4 == 1:
        for ln in (0, 1, 7, 9, 12, 16, 32, 40):
            code = rng.randbytes(ln)
            payload = rng.randbytes(rng.randrange(1, 60))
            ctx.bin("security_code_length_other_than_8")
            check_case(ns, ctx, "code", None, payload, code=code, nwrong=1, tamper=False)
            if ln > 8:
                other = code[:8] + bytes((b ^ 0x5A) for b in code[8:])
                ctx.ev()
                ct = B.ConfigSecurityCodeEncryptor(code).encrypt(payload)
                if not _raises(lambda: B.ConfigSecurityCodeEncryptor(other).decrypt(ct), ctx):
                    ctx.violation("frame_made_under_another_security_code_accepted:codes_share_first_8_bytes", {"len": ln}, {"kind": "code", "key": None, "payload": payload.hex(), "ck": None, "pos": None, "code": code.hex()})
    # customer key whose byte pattern also occurs in the payload BEFORE its slot (quoted key, periodic keys)
    if spec["res"] in (0, 5, 11):
        for L in (24, 40, 64, 100, 253):
            for kind in ("quoted", "uniform", "periodic", "overlap"):
                for pos in sorted({10, 12, L - 10, max(10, L // 2)}):
                    if pos + 10 > L or pos < 10:
                        continue
                    if kind == "quoted":
                        ck = rng.randbytes(10)
                        payload = bytearray(rng.randbytes(L))
                        payload[pos - 10 : pos] = ck
                    elif kind == "uniform":
                        ck = bytes([0xAA] * 10)
                        payload = bytearray(rng.randbytes(L))
                        payload[pos - 10 : pos] = ck
                    elif kind == "periodic":
                        ck = bytes([0x12, 0x34] * 5)
                        payload = bytearray(rng.randbytes(L))
                        payload[pos - 4 : pos] = ck[:4]
                    else:
                        ck = rng.randbytes(10)
                        payload = bytearray(rng.randbytes(L))
                        payload[pos - 3 : pos] = ck[:3]
                        payload[0:10] = ck
                    ctx.bin("custkey_pattern_before_slot")
                    check_case(ns, ctx, "cust", rng.randbytes(16), bytes(payload), ck=ck, pos=pos, nwrong=1, tamper=False)
    # lengths outside the stated range: recorded, never judged
    if spec["res"] == 0:
        for L in (254, 255):
            try:
                ns.bec2file.SoftwareCustKeyEncryptor(bytes(16)).encrypt(bytes(L))
                ctx.note("L%d_outside_range_wrapped_without_error" % L)
            except Exception as e:
                ctx.note("L%d_outside_range_raises_%s" % (L, type(e).__name__))


def check_unconfigured(ns, ctx, key, payload, pos):
    """a customer-key encryptor whose customer key is NOT configured - given as an empty value, or as None - although a position is:
    no key is configured, so the frame is the plain container of the payload and unwrapping returns the payload"""
    B = ns.bec2file
    for name, empty in (("empty_bytes", b""), ("empty_bytearray", bytearray()), ("none", None)):
        rp = {"kind": "cust_empty", "key": key.hex(), "payload": payload.hex(), "pos": pos}
        ctx.ev()
        ctx.bin("customer_key_not_configured_but_position_given")
        try:
            enc = B.SoftwareCustKeyEncryptor(key, empty, pos)
            ct = enc.encrypt(payload)
            ctx.mon("encrypt")
        except Exception as e:
            ctx.violation("wrap_raises:customer_key_not_configured", {"customer_key": name, "exc": fmt_exc(e)}, rp)
            continue
        fr = ossl.aes_cbc(key, ossl.ZERO_IV, ct, False) if len(ct) % 16 == 0 and ct else None
        ctx.mon("frame_vs_model")
        if fr != model.frame(payload):
            ctx.violation("frame_differs_from_model:customer_key_not_configured", {"customer_key": name, "L": len(payload), "pos": pos, "got": fr, "expected": model.frame(payload)}, rp)
            continue
        try:
            got = B.SoftwareCustKeyEncryptor(key, empty, pos).decrypt(ct)
            ctx.mon("decrypt")
            if got != payload:
                ctx.violation("unwrap_returns_other_payload:customer_key_not_configured", {"customer_key": name, "got": got, "expected": payload}, rp)
        except Exception as e:
            ctx.violation("unwrap_of_own_frame_raises:customer_key_not_configured", {"customer_key": name, "exc": fmt_exc(e)}, rp)


def replay(rec, ctx):
    ns = load()
    h = lambda v: bytes.fromhex(v) if v is not None else None
    if rec["kind"] == "firstuse":
        run_firstuse(ns, ctx, {"i": rec["i"]})
        return
    if rec["kind"] == "cust_empty":
        check_unconfigured(ns, ctx, h(rec["key"]), h(rec["payload"]), rec["pos"])
        return
    check_case(ns, ctx, rec["kind"], h(rec["key"]), h(rec["payload"]), ck=h(rec["ck"]), pos=rec["pos"], code=h(rec["code"]), nwrong=4)
