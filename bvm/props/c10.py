"""C10 - configurations encode to bounded TLV blocks that decode to the same operations.

Oracle: bvm.refs.tlvcfg (independent decoder + expected operation list).
"""
from ..ctx import fmt_exc
from ..load import load
from ..refs import tlvcfg as model

ID = "C10"
LEVEL = "exploration"
RULE = (
    "case = configuration dictionary (+ caller-supplied extra blocks) given to Bf3File.set_config / conf_dict_to_tlv; "
    "directed: empty dict, single entries of every content length 0..254, entry sizes 116/117/118 bytes, running block sums "
    "steered onto 115..118 bytes, an oversize entry in first/middle/last position, delete-key / delete-value / set mixes, "
    "merged groups; seeded random dictionaries of 0..40 entries on top. distinct = digest of the sorted dictionary and extras; "
    "non-trivial = at least one entry"
)
ASSUMPTIONS = [
    "a group may be closed by FF or by the end of its block (the statement does not require a closing byte)",
    "a dictionary with an entry that does not fit in 117 bytes may be refused (any exception) or encoded in a larger block; only emptiness and decoding are judged for it",
    "extra blocks are non-empty and at most 255 bytes",
]
TIMEOUT = {"quick": 900, "thorough": 4 * 3600}
OPTIMIZED_SHARDS = ("rand03",)  # these shards also run under python -O
NSH = 16


def plan(tier, seed):
    jobs = [{"name": "directed", "spec": {"kind": "directed"}}]
    n = 200000 if tier == "quick" else 8000000
    for i in range(NSH):
        jobs.append({"name": "rand%02d" % i, "spec": {"kind": "rand", "n": n // NSH}})
    for i in range(2 if tier == "quick" else 8):
        jobs.append({"name": "threads%02d" % i, "spec": {"kind": "threads", "rounds": 6 if tier == "quick" else 80}})
    return jobs


def mandatory_bins(tier):
    return [
        "empty_dict", "delete_key", "delete_value", "set_value", "merged_group", "multi_block", "block_size_115", "block_size_116", "block_size_117",
        "single_entry_116", "single_entry_117", "single_entry_118_oversize", "oversize_first", "oversize_middle", "oversize_last",
        "unrepresentable_refused_or_encoded", "extra_blocks", "content_len_0", "content_len_254", "key_0", "key_ffff", "vid_0", "vid_fe", "all_fit", "set_config_replaces_older_configuration_with_other_tags", "description_of_an_earlier_configuration_component_edited_by_the_caller", "extra_blocks_given_as_one_shot_iterator", "extra_blocks_given_as_generator", "contents_given_as_bytearray_or_memoryview", "dictionaries_encoded_by_concurrent_threads", "extra_block_given_twice", "extra_block_identical_to_a_generated_block",
    ]


def judge(ns, ctx, conf, extras, via):
    """run the real encoder on conf (+extras), decode with the model, compare"""
    BF = ns.bf3file
    rp = {"conf": [[k, v, c.hex() if c is not None else None] for (k, v), c in conf.items()], "extras": [e.hex() for e in extras], "via": via}
    sizes = [model.entry_size(v, c) for (k, v), c in conf.items()]
    all_fit = all(s <= model.MAX_BLOCK for s in sizes)
    ctx.ev()
    ctx.distinct(sorted((k, -1 if v is None else v, c) for (k, v), c in conf.items()), extras, via)
    if all_fit:
        ctx.bin("all_fit")
    for (k, v), c in conf.items():
        if v is None:
            ctx.bin("delete_key")
        elif c is None:
            ctx.bin("delete_value")
        else:
            ctx.bin("set_value")
            if len(c) in (0, 254):
                ctx.bin("content_len_%d" % len(c))
        if k in (0, 0xFFFF):
            ctx.bin("key_%x" % k if k else "key_0")
        if v in (0, 0xFE):
            ctx.bin("vid_%x" % v if v else "vid_0")
    if not conf:
        ctx.bin("empty_dict")
    if extras:
        ctx.bin("extra_blocks")
    expected = model.expected_ops(conf)
    arg_conf = dict(conf)
    if len(conf) % 5 == 3:
        # contents handed over as bytearray / memoryview
        arg_conf = {k: (c if c is None else (bytearray(c) if (k[0] + (k[1] or 0)) % 2 else memoryview(bytes(c)))) for k, c in conf.items()}
        ctx.bin("contents_given_as_bytearray_or_memoryview")
    try:
        pre = False
        if via == "set_config":
            f = BF.Bf3File()
            if len(conf) % 4 == 3:
                # an older configuration component with other tags is already in the package
                pre = True
                f.components.append(BF.Bf3Component({0xC3: b"\x03", 0xC2: b"\x00", 0xC1: b"\x00", 0xC5: b"\x00", 0xC9: b"\x01\x01\x00\x9b"}, b"old configuration", None, False))
                ctx.bin("set_config_replaces_older_configuration_with_other_tags")
            if extras:
                how = len(conf) % 4
                if how == 1:
                    xs = tuple(extras)
                elif how == 2:
                    xs = iter(list(extras))  # one-shot iterables are Iterable[bytes] too
                    ctx.bin("extra_blocks_given_as_one_shot_iterator")
                elif how == 3:
                    xs = (b_ for b_ in list(extras))
                    ctx.bin("extra_blocks_given_as_generator")
                else:
                    xs = list(extras)
                f.set_config(dict(arg_conf), xs)
            else:
                f.set_config(dict(arg_conf))
            ctx.mon("set_config")
            comp = f.components[-1]
            blob = comp.blob
        else:
            blocks_direct = BF.conf_dict_to_tlv(dict(arg_conf))
            ctx.mon("conf_dict_to_tlv")
            blob = b"".join(bytes((len(b),)) + b for b in blocks_direct) + b"\x00"
            comp = None
    except Exception as e:
        ctx.exc(e)
        if all_fit:
            ctx.violation("encoder_raises_although_every_entry_fits", {"exc": fmt_exc(e), "entries": len(conf)}, rp)
        else:
            ctx.bin("unrepresentable_refused_or_encoded")
            ctx.note("oversize_entry_refused_" + type(e).__name__)
        return
    if not all_fit and max(sizes) > 255:
        ctx.bin("unrepresentable_refused_or_encoded")
    # ---- framing ---------------------------------------------------------------
    try:
        blocks = model.split_blocks(blob)
    except model.TlvError as e:
        if "after the terminating" in str(e):
            ctx.violation("empty_block:zero_length_byte_ends_the_list_early", {"blob_head": blob[:24], "len": len(blob), "terminator_at": blob.index(0) if 0 in blob[:1] else None}, rp)
            return
        ctx.violation("blob_not_length_prefixed_blocks_closed_by_00", {"err": str(e), "blob_head": blob[:40], "len": len(blob)}, rp)
        return
    nextra = len(extras) if via == "set_config" else 0
    # an empty first block is encoded as length 00 = terminator: the model then sees
    # "bytes after the terminating 00" above.  Also catch zero blocks for a non-empty dict:
    cfg_blocks = blocks[: len(blocks) - nextra] if nextra <= len(blocks) else blocks
    if nextra:
        if blocks[len(blocks) - nextra :] != [bytes(e) for e in extras]:
            ctx.violation("extra_blocks_not_appended_unchanged", {"got_tail": blocks[-nextra:], "expected": extras}, rp)
            return
    if any(len(b) == 0 for b in blocks):
        ctx.violation("empty_block", {}, rp)
        return
    if all_fit:
        big = [len(b) for b in cfg_blocks if len(b) > model.MAX_BLOCK]
        if big:
            ctx.violation("block_larger_than_117_although_every_entry_fits", {"sizes": big}, rp)
            return
    for b in cfg_blocks:
        if len(b) in (115, 116, 117):
            ctx.bin("block_size_%d" % len(b))
    if len(cfg_blocks) > 1:
        ctx.bin("multi_block")
    # ---- decoding ----------------------------------------------------------------
    got = []
    try:
        for b in cfg_blocks:
            ops, open_end = model.decode_block(b)
            got += ops
            ctx.note("last_group_open_at_block_end" if open_end else "last_group_closed_by_FF")
    except model.TlvError as e:
        ctx.violation("block_does_not_decode", {"err": str(e), "block": b}, rp)
        return
    ctx.mon("decode_compare")
    if got != expected:
        if sorted(map(repr, got)) == sorted(map(repr, expected)):
            what = "operations_in_wrong_order"
        elif len(got) < len(expected):
            what = "operations_lost"
        elif len(got) > len(expected):
            what = "operations_duplicated_or_invented"
        else:
            what = "operation_content_differs"
        ctx.violation(what, {"got": got[:8], "expected": expected[:8], "n_got": len(got), "n_expected": len(expected)}, rp)
        return
    # ---- component tags ------------------------------------------------------------
    if comp is not None:
        want = {0xC3: b"\x03", 0xC2: b"\x02", 0xC1: b"\x03", 0xC5: b"\x01"}
        have = dict(comp.description)
        if pre:
            # only the four tags the statement names are judged when an older component existed
            have = {k: v for k, v in have.items() if k in want}
        if have != want:
            ctx.violation("component_tags", {"got": dict(comp.description), "expected": want}, rp)
        elif not comp.encrypt_by_session_key:
            ctx.violation("component_not_marked_for_encryption", {}, rp)
        elif comp.actual_len != len(blob):
            ctx.violation("declared_length_differs_from_blob_length", {"declared": comp.actual_len, "blob": len(blob)}, rp)
        if len(f.components) != 1:
            ctx.violation("set_config_on_empty_file_gives_component_count", {"n": len(f.components)}, rp)
        if len(conf) % 5 == 2:
            # the caller goes on editing the component it got (adds a platform filter, clears the reboot request): the tags of
            # configuration components made LATER - in this or any other file - must not know about it
            comp.description[0xC9] = b"\x01\x01\x00\x9b"
            comp.description[0xC5] = b"\x00"
            ctx.bin("description_of_an_earlier_configuration_component_edited_by_the_caller")


def run_threads(ns, ctx, spec):
    """several threads encoding DIFFERENT dictionaries at the same time (conf_dict_to_tlv / set_config on their own files),
    interleaved at every source line of the encoder: each result must decode to its own dictionary"""
    from ..sched import yieldrun

    BF = ns.bf3file
    rng = ctx.rng
    # every function of the module and every method of every class defined in it (whatever helper the encoder uses)
    codes = yieldrun.code_objects_of(BF, *[v for v in vars(BF).values() if isinstance(v, type) and v.__module__ == BF.__name__])
    codes += [c_ for c_ in yieldrun.code_objects_of_module(ns.bf3file, ns.bytes_reader) if c_ not in codes]  # module-level helpers and every class of these modules
    total = 0
    for rnd in range(spec["rounds"]):
        nthreads = (2, 3, 4)[rnd % 3]
        confs = []
        for _ in range(nthreads):
            c = rand_conf(rng)
            while not c or any(model.entry_size(v, cc) > model.MAX_BLOCK for (k, v), cc in c.items()):
                c = rand_conf(rng)
            confs.append(c)

        def body(i):
            def run():
                if i % 2:
                    f = BF.Bf3File()
                    f.set_config(dict(confs[i]))
                    return bytes(f.components[-1].blob)
                blocks = BF.conf_dict_to_tlv(dict(confs[i]))
                return b"".join(bytes((len(b),)) + bytes(b) for b in blocks) + b"\x00"
            return run

        res, y = yieldrun.run_concurrently([body(i) for i in range(nthreads)], codes, sleep=0.0001, max_yields=20000)
        total += y
        ctx.ev(nthreads)
        ctx.bin("dictionaries_encoded_by_concurrent_threads")
        ctx.mon("conf_dict_to_tlv", nthreads)
        ctx.distinct("threads", rnd, [sorted((k, -1 if v is None else v, c) for (k, v), c in cf.items()) for cf in confs])
        for i, r in enumerate(res):
            rp = {"conf": [[k, v, c.hex() if c is not None else None] for (k, v), c in confs[i].items()], "extras": [], "via": "threads"}
            if r is None:
                ctx.note("thread_still_running_after_timeout(inconclusive)")
                continue
            if r[0] == "exc":
                ctx.violation("encoder_raises_although_every_entry_fits", {"exc": r[1], "concurrent": True}, rp)
                continue
            try:
                ops = []
                for b in model.split_blocks(r[1]):
                    ops += model.decode_block(b)[0]
            except model.TlvError as e:
                ctx.violation("block_does_not_decode", {"err": str(e), "concurrent": True}, rp)
                continue
            if ops != model.expected_ops(confs[i]):
                ctx.violation("operation_content_differs", {"n_got": len(ops), "n_expected": len(model.expected_ops(confs[i])), "concurrent": True}, rp)
    ctx.mon("line_yields_injected", total)
    ctx.sample({"kind": "threads", "rounds": spec["rounds"], "line_yields": total})


def rand_conf(rng, steer=False):
    conf = {}
    n = rng.choice((0, 1, 2, 3)) if rng.random() < 0.3 else rng.randrange(0, 41)
    keys_pool = [0, 1, 0x0620, 0xFFFF, 0x0202] + [rng.randrange(0x10000) for _ in range(4)]
    delkeys = set()
    for _ in range(n):
        key = rng.choice(keys_pool)
        r = rng.random()
        if r < 0.12:
            if any(k == key for (k, v) in conf):
                continue
            conf[(key, None)] = rng.choice((None, b""))
            delkeys.add(key)
            continue
        if key in delkeys:
            continue
        vid = rng.choice((0, 1, 0xFE)) if rng.random() < 0.3 else rng.randrange(0xFF)
        if r < 0.3:
            conf[(key, vid)] = None
        else:
            rr = rng.random()
            if rr < 0.08:
                ln = rng.choice((109, 110, 111))
            elif rr < 0.12 and steer:
                ln = rng.choice((112, 113, 200, 249, 250, 254))
            elif rr < 0.5:
                ln = rng.randrange(0, 8)
            else:
                ln = rng.randrange(0, 112)
            conf[(key, vid)] = rng.randbytes(ln)
    # random insertion order
    items = list(conf.items())
    rng.shuffle(items)
    return dict(items)


def run_shard(spec, ctx):
    ns = load(plugin=False)
    rng = ctx.rng
    if spec["kind"] == "threads":
        run_threads(ns, ctx, spec)
        return
    if spec["kind"] == "directed":
        judge(ns, ctx, {}, [], "set_config")
        judge(ns, ctx, {}, [], "direct")
        # single entries of every content length
        for ln in range(255):
            conf = {(0x0620, 0x06): bytes([0x41 + ln % 26]) * ln}
            size = model.entry_size(6, conf[(0x0620, 6)])
            if size in (116, 117):
                ctx.bin("single_entry_%d" % size)
            if size == 118:
                ctx.bin("single_entry_118_oversize")
            if size > 117:
                ctx.bin("oversize_first")
            judge(ns, ctx, conf, [], "set_config")
            judge(ns, ctx, conf, [], "direct")
        # oversize entry in first / middle / last position (sorted order decides position)
        for ln in (112, 113, 150, 200, 249):
            big = rng.randbytes(ln)
            small = lambda: rng.randbytes(rng.randrange(0, 20))
            first = {(1, 0): big, (2, 0): small(), (3, 0): small()}
            mid = {(1, 0): small(), (2, 0): big, (3, 0): small()}
            last = {(1, 0): small(), (2, 0): small(), (3, 0): big}
            same_group_first = {(1, 0): big, (1, 1): small(), (1, 2): small()}
            same_group_mid = {(1, 0): small(), (1, 1): big, (1, 2): small()}
            after_delete = {(0, None): None, (1, 0): big}
            for name, conf in (("first", first), ("middle", mid), ("last", last), ("first", same_group_first), ("middle", same_group_mid), ("middle", after_delete)):
                ctx.bin("oversize_" + name)
                judge(ns, ctx, conf, [], "set_config")
                judge(ns, ctx, conf, [bytes([9, 9, 9])], "set_config")
        # running block sums steered onto 115..118: one group, contents chosen so that
        # 3 + sum(2+len) + 1 hits the target
        for target in (114, 115, 116, 117, 118, 119):
            for nent in (2, 3, 5, 8):
                body = target - 4
                lens = [max(0, body // nent - 2)] * nent
                lens[-1] += body - sum(l + 2 for l in lens)
                if lens[-1] < 0:
                    continue
                conf = {(7, i): bytes([i]) * l for i, l in enumerate(lens)}
                judge(ns, ctx, conf, [], "set_config")
                # and across different keys (different prefaces)
                conf2 = {}
                tot = 0
                i = 0
                while True:
                    ln = 10
                    sz = 3 + 2 + ln + 1
                    if tot + sz > target:
                        ln = target - tot - 6
                        if ln >= 0:
                            conf2[(100 + i, 0)] = bytes([i]) * ln
                        break
                    conf2[(100 + i, 0)] = bytes([i]) * ln
                    tot += sz
                    i += 1
                judge(ns, ctx, conf2, [], "set_config")
        # merged groups, deletes and sets of the same key family, many blocks
        conf = {(5, i): bytes([i]) * 3 for i in range(40)}
        ctx.bin("merged_group")
        judge(ns, ctx, conf, [], "set_config")
        conf = {(5, i): None for i in range(30)}
        conf.update({(6, None): None, (4, None): b""})
        conf.update({(9, i): bytes(5) for i in range(10)})
        judge(ns, ctx, conf, [], "set_config")
        judge(ns, ctx, conf, [b"\x01\x02", b"\xff" * 255, b"\x00"], "set_config")
        ctx.sample({"conf": {"(5,0..39)": "3 bytes each"}, "note": "merged group, multi block"})
        return
    for i in range(spec["n"]):
        conf = rand_conf(rng, steer=(i % 5 == 0))
        extras = []
        if rng.random() < 0.2:
            extras = [rng.randbytes(rng.choice((1, 2, 117, 118, 255)) if rng.random() < 0.3 else rng.randrange(1, 256)) for _ in range(rng.randrange(1, 4))]
            r_ = rng.random()
            if r_ < 0.3:
                # the same extra block twice (the very same bytes object, or an equal copy): both copies follow, in place
                j_ = rng.randrange(len(extras))
                extras.insert(rng.randrange(len(extras) + 1), extras[j_] if r_ < 0.15 else bytes(bytearray(extras[j_])))
                ctx.bin("extra_block_given_twice")
            elif r_ < 0.5 and conf:
                # an extra block byte-identical to a block the dictionary itself produces (taken over from another package)
                try:
                    own = [bytes(b_) for b_ in ns.bf3file.conf_dict_to_tlv(dict(conf))]
                except Exception:
                    own = []
                if own:
                    extras.insert(rng.randrange(len(extras) + 1), rng.choice(own))
                    ctx.bin("extra_block_identical_to_a_generated_block")
        if any(v is not None and c is not None for (k, v), c in conf.items()):
            ks = sorted((k, v) for (k, v), c in conf.items() if v is not None and c is not None)
            if any(a[0] == b[0] for a, b in zip(ks, ks[1:])):
                ctx.bin("merged_group")
        judge(ns, ctx, conf, extras, "set_config" if i % 3 else "direct")
        if i < 2:
            ctx.sample({"conf": [[k, v, c] for (k, v), c in list(conf.items())[:4]], "entries": len(conf), "extras": len(extras)})


def replay(rec, ctx):
    ns = load(plugin=False)
    conf = {(k, v): (bytes.fromhex(c) if c is not None else None) for k, v, c in rec["conf"]}
    if rec.get("via") == "threads":
        run_threads(ns, ctx, {"rounds": 6})
        return
    judge(ns, ctx, conf, [bytes.fromhex(e) for e in rec["extras"]], rec["via"])
