"""C09 - ECC auth block is decryptable by an independent ECIES implementation.

Oracle: bvm.refs.ecies (OpenSSL ECDH on P-256 + SHA-256 + OpenSSL AES-CBC).
For the default-recipient case (private key unknown) the ephemeral key is pinned
through a hook on the registered key generator, so that the expected block can be
computed independently from the published public key of the selector."""
import io

from ..ctx import fmt_exc
from ..gen import bec2 as GB
from ..gen import files as G
from ..load import load
from ..monitors import Recorder
from ..refs import ecies, ossl
from ..refs import layout as L

ID = "C09"
LEVEL = "exploration"
RULE = (
    "wrap cases: (recipient private scalar incl. 1, 2, n-2, n-1, 2^k, 2^k-1; session key incl. trailing zeros; selector 0..3; explicit recipient / "
    "no recipient / only recipients for other selectors / EccEncryptor(selector) default) - each block is parsed and opened by the independent "
    "ECIES model or compared with the block the model computes for the pinned ephemeral key and the published key of that selector; unwrap cases: "
    "model-built valid blocks (edge ephemeral scalars) must give the key, model-built blocks with invalid ephemeral points (off curve, coordinate >= p, "
    "(0,0), on the twist, y+-1, truncated) must be refused. distinct = digest of the case; non-trivial = every case"
)
ASSUMPTIONS = [
    "the four published recipient keys are pinned in the check as specification data (copied from the tree at design time): a later change of them is detected, not judged",
    "OpenSSL ECDH / point validation is the independent implementation; 'refuses' = any exception",
    "bytes appended after the 16-byte ciphertext are not an 'invalid point' and are only recorded",
]
TIMEOUT = {"quick": 900, "thorough": 8 * 3600}
OPTIMIZED_SHARDS = ("unwrap00",)  # these shards also run under python -O
NSH = 16

PUBLISHED = {
    0: "3059301306072A8648CE3D020106082A8648CE3D03010703420004057B565D976A3306E8BD094A4671138198707D0BB67C88A45E8F375DCB1416C9519884E2109A02792072AF237911A612EB16213836E90FDD421B479EBD98158E",
    1: "3059301306072A8648CE3D020106082A8648CE3D03010703420004D7B1B5CBD0587AE22E91AEE229B9534A920C905F58513CB4391F8C3F5A1B464CCC05917E5C59C3AE3E1197992B2FBB24F34238D1E4BBC62DC0DBC8F36903E92B",
    2: "3059301306072A8648CE3D020106082A8648CE3D030107034200040CD731ED3730E53F7244EE71D8D54F5300885FF645EC8FD27FA3D9D1C4629FAF6536A1F5B46F0C7CA923EE284C115B9D6514EDEF9AA1FDBF1F54030B49AEF8A6",
    3: "3059301306072A8648CE3D020106082A8648CE3D03010703420004B6BC3D318417AE9099A228C29A0DE85AC053EAB5B3AA508BF4A438BF15FF8B551A04004051801A3D08A6055715C9DFF38FD2EFAA311C8154BD9A302597C86053",
}
INVALID_CLASSES = ["off_curve_random", "x_ge_p", "y_ge_p", "zero_zero", "on_twist", "y_plus_1", "y_minus_1", "truncated_point", "x_equals_p", "valid_x_wrong_y_random", "x_plus_p_congruent_to_a_curve_point"]


def plan(tier, seed):
    q = tier == "quick"
    jobs = [{"name": "wrap%02d" % i, "spec": {"kind": "wrap", "n": 80 if q else 6000, "i": i}} for i in range(NSH)]
    jobs += [{"name": "dflt%02d" % i, "spec": {"kind": "default", "n": 40 if q else 2500, "i": i}} for i in range(8)]
    jobs += [{"name": "unwrap%02d" % i, "spec": {"kind": "unwrap", "n": 80 if q else 5000, "i": i}} for i in range(8)]
    jobs += [{"name": "threads%02d" % i, "spec": {"kind": "threads", "rounds": 3 if q else 40}} for i in range(2 if q else 8)]
    # the first ECC blocks of a process packed by several threads at once, recipients known by their PUBLIC keys only: nothing has
    # multiplied a point before the threads start (fresh process per shard)
    jobs += [{"name": "firstuse%02d" % i, "spec": {"kind": "firstuse", "i": i}} for i in range(3 if q else 24)]
    jobs += [{"name": "reuse%02d" % i, "spec": {"kind": "reuse", "n": 130 if q else 600, "i": i}} for i in range(2 if q else 6)]
    return jobs


def mandatory_bins(tier):
    b = ["sel_%d_explicit" % s for s in range(4)] + ["sel_%d_no_encryptors" % s for s in range(4)] + ["sel_%d_only_other_selectors" % s for s in range(4)] + ["sel_%d_default_encryptor_object" % s for s in range(4)]
    b += ["scalar_1", "scalar_2", "scalar_n-2", "scalar_n-1", "scalar_2^k", "scalar_2^k-1", "scalar_random", "key_trailing_zero", "key_all_zero", "model_block_opened_by_real_decryptor",
          "whole_file_with_ecc_block", "published_keys_pinned", "explicit_recipients_created_before_first_default_use", "encryptors_given_as_one_shot_iterator", "encryptors_given_as_generator", "blocks_packed_by_concurrent_threads", "one_recipient_key_object_reused_for_many_blocks", "recipient_key_buffer_reused_by_the_caller_afterwards", "recipient_added_to_the_same_list_after_a_default_pack", "first_blocks_of_the_process_packed_by_concurrent_threads"]
    b += ["invalid:" + c for c in INVALID_CLASSES]
    return b


def mandatory_monitors(tier):
    return ["hook:generate_private_key", "hook:compute_dh_secret"]


def edge_scalar(rng, i):
    n = ecies.P256_N
    k = i % 7
    if k == 0:
        return 1, "scalar_1"
    if k == 1:
        return 2, "scalar_2"
    if k == 2:
        return n - 2, "scalar_n-2"
    if k == 3:
        return n - 1, "scalar_n-1"
    if k == 4:
        return 1 << rng.randrange(1, 256), "scalar_2^k"
    if k == 5:
        return (1 << rng.randrange(2, 257)) - 1 if True else 0, "scalar_2^k-1"
    return rng.randrange(1, n), "scalar_random"


def gen_session_key(ctx, rng):
    r = rng.random()
    if r < 0.2:
        ctx.bin("key_trailing_zero")
        z = rng.choice((1, 2, 15))
        return rng.randbytes(16 - z) + bytes(z)
    if r < 0.25:
        ctx.bin("key_all_zero")
        return bytes(16)
    return rng.randbytes(16)


def check_block(ctx, blk, sel, recipient_priv, key, rp, how):
    """structure + independent decryption of one packed block"""
    if len(blk) != 82:
        ctx.violation("ecc_block_length", {"len": len(blk), "how": how}, rp)
        return False
    if blk[0] != sel:
        ctx.violation("ecc_block_selector_byte", {"got": blk[0], "expected": sel, "how": how}, rp)
        return False
    if blk[1] != 4:
        ctx.violation("ecc_block_point_marker", {"got": blk[1], "how": how}, rp)
        return False
    try:
        s2, pt, ct = ecies.parse_block(blk)
    except ecies.EciesError as e:
        ctx.violation("ecc_block_ephemeral_point_invalid", {"err": str(e), "how": how}, rp)
        return False
    ctx.mon("independent_point_check")
    if recipient_priv is not None:
        _, got = ecies.open_block(blk, recipient_priv)
        ctx.mon("independent_ecies_decrypt")
        if got != key:
            ctx.violation("independent_implementation_recovers_other_key", {"got": got, "expected": key, "how": how}, rp)
            return False
    return True


def run_wrap(ns, ctx, spec):
    B = ns.bec2file
    rng = ctx.rng
    for j in range(spec["n"]):
        idx = spec["i"] + NSH * j
        priv, sname = edge_scalar(rng, idx)
        if priv >= ecies.P256_N:
            priv = ecies.P256_N - 1
        sel = idx % 4
        key = gen_session_key(ctx, rng)
        rp = {"kind": "wrap", "priv": hex(priv), "sel": sel, "key": key.hex()}
        ctx.ev()
        ctx.bin(sname)
        ctx.bin("sel_%d_explicit" % sel)
        ctx.distinct("wrap", priv, sel, key)
        spec_b = {"kind": "ecc", "sel": sel, "priv": priv}
        dec = GB.encryptor_for(ns, spec_b, True)
        others = [B.EccDecryptor((sel + 1) % 4, GB.private_key_obj(ns, rng.randrange(1, ecies.P256_N)))] if idx % 3 == 0 else []
        enc_arg = others + [dec]
        how_given = idx % 5
        if how_given == 1:
            enc_arg = iter(enc_arg)  # a one-shot iterable is enough for ONE block
            ctx.bin("encryptors_given_as_one_shot_iterator")
        elif how_given == 2:
            enc_arg = (e_ for e_ in list(enc_arg))
            ctx.bin("encryptors_given_as_generator")
        elif how_given == 3:
            enc_arg = tuple(enc_arg)
        try:
            blk = B.InitEccAuthBlock(sel).pack(key, enc_arg)
            ctx.mon("pack")
        except Exception as e:
            ctx.violation("pack_raises", {"exc": fmt_exc(e)}, rp)
            continue
        if not check_block(ctx, blk, sel, priv, key, rp, "explicit_recipient"):
            continue
        # the library's own decryptor, and the whole-file path
        try:
            ab, k2 = B.InitEccAuthBlock.unpack(blk, [dec])
            if bytes(k2) != key or ab.key_selector != sel:
                ctx.violation("own_unpack_gives_other_key_or_selector", {"got": k2, "sel": ab.key_selector}, rp)
        except Exception as e:
            ctx.violation("own_unpack_raises", {"exc": fmt_exc(e)}, rp)
        if idx % 10 == 0:
            f = B.Bec2File(ns.bf3file.Bf3File({"a": "b"}, [ns.bf3file.Bf3Component({1: b"x"}, b"payload")]), [B.InitEccAuthBlock(sel)], key)
            buf = io.StringIO()
            f.write_file(buf, [dec])
            _, binary = L.parse_text(buf.getvalue())
            blocks, pos = L.parse_bec2_header(binary)
            ctx.bin("whole_file_with_ecc_block")
            if check_block(ctx, bytes(blocks[0][1]), sel, priv, key, rp, "whole_file"):
                try:
                    L.parse_body(binary, pos, key, True)
                except L.LayoutError as e:
                    ctx.violation("recovered_key_does_not_authenticate_the_file:" + e.rule, {}, rp)
        if j == 0:
            ctx.sample({"kind": "wrap", "sel": sel, "recipient_scalar": hex(priv), "session_key": key, "block": blk})


def run_reuse(ns, ctx, spec):
    """ONE recipient key object (loaded from DER, as an application would keep it) used for hundreds of blocks in a row: block
    number 100, 101, ... must be as good as the first"""
    B = ns.bec2file
    rng = ctx.rng
    priv = rng.randrange(1, ecies.P256_N)
    sel = spec["i"] % 4
    pub = ns.crypto.create_public_ecc_key_from_der_fmt(ecies.spki_der(ecies.pub_of(priv))) if spec["i"] % 2 == 0 else GB.private_key_obj(ns, priv).public_key
    enc = B.EccEncryptor(sel, pub)
    # the recipient key read into a buffer the caller goes on using (bytearray, as filled by readinto): the recipient is the key that
    # was in the buffer when the key object was made - whatever the buffer holds later
    for variant in range(6):
        ctx.ev()
        ctx.bin("recipient_key_buffer_reused_by_the_caller_afterwards")
        p1 = rng.randrange(1, ecies.P256_N)
        p2 = rng.randrange(1, ecies.P256_N)
        buf = bytearray(ecies.spki_der(ecies.pub_of(p1)))
        rp = {"kind": "reuse", "priv": hex(p1), "sel": sel, "variant": "buffer_reused"}
        try:
            pub_b = ns.crypto.create_public_ecc_key_from_der_fmt(buf) if variant % 2 == 0 else ns.plugin.PublicEccKeyProxy.create_from_der_fmt(buf)
        except Exception as e:
            ctx.exc(e)
            ctx.note("recipient_key_in_a_bytearray_refused")
            continue
        enc_b = B.EccEncryptor(sel, pub_b)
        if variant >= 2:
            buf[:] = ecies.spki_der(ecies.pub_of(p2))  # the next key is read into the same buffer
        if variant >= 4:
            buf[:] = bytes(len(buf))
        key = rng.randbytes(16)
        try:
            blk = B.InitEccAuthBlock(sel).pack(key, [enc_b])
            ctx.mon("pack")
        except Exception as e:
            ctx.violation("pack_raises", {"exc": fmt_exc(e), "recipient_key": "made from a bytearray the caller reused afterwards"}, rp)
            continue
        check_block(ctx, blk, sel, p1, key, rp, "recipient_key_buffer_reused_by_the_caller")
    for j in range(spec["n"]):
        key = rng.randbytes(16)
        rp = {"kind": "reuse", "priv": hex(priv), "sel": sel, "key": key.hex(), "use_number": j + 1}
        ctx.ev()
        ctx.bin("one_recipient_key_object_reused_for_many_blocks")
        ctx.distinct("reuse", priv, j, key)
        try:
            blk = B.InitEccAuthBlock(sel).pack(key, [enc])
            ctx.mon("pack")
        except Exception as e:
            ctx.violation("pack_raises", {"exc": fmt_exc(e), "use_number": j + 1}, rp)
            break
        if not check_block(ctx, blk, sel, priv, key, rp, "recipient_object_use_%s" % ("1..99" if j < 99 else "100+")):
            break
    ctx.sample({"kind": "reuse", "uses": spec["n"]})


def run_threads(ns, ctx, spec):
    """ECC blocks for different recipients packed by several threads at the same time, interleaved at every source line of the
    crypto plug-in's key classes and of the ECC encryptor: each block must open, with the independent model, to its own key"""
    from ..sched import yieldrun

    B = ns.bec2file
    rng = ctx.rng
    codes = yieldrun.code_objects_of(ns.plugin.PrivateEccKeyProxy, ns.plugin.PublicEccKeyProxy, B.EccEncryptor, B.EccDecryptor, B.InitEccAuthBlock)
    codes += [c_ for c_ in yieldrun.code_objects_of_module(ns.bec2file, ns.crypto, ns.plugin) if c_ not in codes]  # module-level helpers and every class of these modules
    total = 0
    for rnd in range(spec["rounds"]):
        nthreads = (2, 3)[rnd % 2]
        privs = [rng.randrange(1, ecies.P256_N) for _ in range(nthreads)]
        sels = [rng.randrange(4) for _ in range(nthreads)]
        keys = [rng.randbytes(16) for _ in range(nthreads)]
        decs = [GB.encryptor_for(ns, {"kind": "ecc", "sel": sels[i], "priv": privs[i]}, True) for i in range(nthreads)]

        def body(i):
            return lambda: B.InitEccAuthBlock(sels[i]).pack(keys[i], [decs[i]])

        res, y = yieldrun.run_concurrently([body(i) for i in range(nthreads)], codes, sleep=0.0003, max_yields=4000)
        total += y
        ctx.ev(nthreads)
        ctx.bin("blocks_packed_by_concurrent_threads")
        ctx.mon("pack", nthreads)
        ctx.distinct("threads", rnd, privs, keys)
        for i, r in enumerate(res):
            rp = {"kind": "threads", "priv": hex(privs[i]), "sel": sels[i], "key": keys[i].hex()}
            if r is None:
                ctx.note("thread_still_running_after_timeout(inconclusive)")
            elif r[0] == "exc":
                ctx.violation("pack_raises", {"exc": r[1], "concurrent": True}, rp)
            else:
                check_block(ctx, r[1], sels[i], privs[i], keys[i], rp, "packed_by_concurrent_threads")
    ctx.mon("line_yields_injected", total)
    ctx.sample({"kind": "threads", "rounds": spec["rounds"], "line_yields": total})


class Pin:
    """hooks on the registered key generator: optionally returns a key the harness knows"""

    def __init__(self, ns, ctx):
        self.ns = ns
        self.next_priv = None
        self.dh_peers = []
        P = ns.plugin.PrivateEccKeyProxy
        self.raw_generate = P.__dict__["generate"].__func__
        pin = self

        def generate(cls):
            ctx.mon("hook:generate_private_key")
            if pin.next_priv is not None:
                p, pin.next_priv = pin.next_priv, None
                return cls.create_from_der_fmt(ecies.sec1_der(p))
            return pin.raw_generate(cls)

        self.saved = P.__dict__["generate"]
        P.generate = classmethod(generate)
        self.rec = Recorder(P, "compute_dh_secret", ctx, "hook:compute_dh_secret", self._dh)

    def _dh(self, a, k, res, exc, tok):
        if exc is None:
            self.dh_peers.append(bytes(a[1].to_der_fmt()))

    def remove(self):
        self.rec.remove()
        self.ns.plugin.PrivateEccKeyProxy.generate = self.saved


def run_default(ns, ctx, spec):
    B = ns.bec2file
    rng = ctx.rng
    pub = {s: ecies.published_key(bytes.fromhex(h)) for s, h in PUBLISHED.items()}
    ctx.bin("published_keys_pinned")
    pin = Pin(ns, ctx)
    try:
        for j in range(spec["n"]):
            idx = spec["i"] + 8 * j
            sel = (j + spec["i"]) % 4
            how = ("no_encryptors", "only_other_selectors", "default_encryptor_object")[(j // 4 + spec["i"]) % 3]
            if j == 0:
                # explicit recipients for every selector are created BEFORE the first default use in this process:
                # a default block must still be addressed to the published key
                for s2 in range(4):
                    B.EccDecryptor(s2, GB.private_key_obj(ns, 4000 + s2))
                    B.EccEncryptor(s2, GB.private_key_obj(ns, 5000 + s2).public_key)
                ctx.bin("explicit_recipients_created_before_first_default_use")
            key = gen_session_key(ctx, rng)
            eph, sname = edge_scalar(rng, idx // 12)
            eph = min(eph, ecies.P256_N - 1)
            rp = {"kind": "default", "sel": sel, "how": how, "key": key.hex(), "eph": hex(eph)}
            ctx.ev()
            ctx.bin("sel_%d_%s" % (sel, how))
            ctx.bin(sname)
            ctx.distinct("default", sel, how, key, eph)
            if how == "no_encryptors":
                encs = []
            elif how == "only_other_selectors":
                encs = [B.EccDecryptor(s2, GB.private_key_obj(ns, rng.randrange(1, ecies.P256_N))) for s2 in range(4) if s2 != sel][: 1 + idx % 3]
                if idx % 2:
                    encs.append(B.SoftwareCustKeyEncryptor(rng.randbytes(16)))
            else:
                try:
                    encs = [B.EccEncryptor(sel)]
                except Exception as e:
                    ctx.violation("default_encryptor_for_selector_not_constructible", {"exc": fmt_exc(e), "sel": sel}, rp)
                    continue
            pin.next_priv = eph
            n0 = len(pin.dh_peers)
            encs_before = list(encs)
            try:
                blk = B.InitEccAuthBlock(sel).pack(key, encs) if how != "no_encryptors" or idx % 2 else B.InitEccAuthBlock(sel).pack(key)
                ctx.mon("pack")
            except Exception as e:
                ctx.violation("pack_raises", {"exc": fmt_exc(e), "how": how}, rp)
                continue
            finally:
                pin.next_priv = None
            if not check_block(ctx, blk, sel, None, key, rp, how):
                continue
            want = ecies.make_block(sel, eph, pub[sel], key)
            ctx.mon("expected_block_from_published_key")
            if blk != want:
                to = [s2 for s2 in range(4) if ecies.make_block(sel, eph, pub[s2], key) == blk]
                if blk[:66] != want[:66]:
                    what = "ephemeral_point_is_not_the_generated_key"
                elif to:
                    what = "addressed_to_published_key_of_selector_%d_instead" % to[0]
                else:
                    what = "not_addressed_to_the_published_key_of_the_selector"
                ctx.violation("default_recipient:" + what, {"sel": sel, "how": how}, rp)
                continue
            peers = pin.dh_peers[n0:]
            if len(peers) != 1 or ossl.parse_spki(peers[0]) != pub[sel]:
                ctx.violation("default_recipient:key_agreement_made_with_another_public_key", {"sel": sel, "how": how, "dh_calls": len(peers)}, rp)
            if j == 0:
                ctx.sample({"kind": "default", "sel": sel, "how": how, "block": blk})
            # history on the caller's OWN list object: packing must leave it as it was, and a recipient the caller adds to it afterwards
            # is the recipient of the next block
            changed = len(encs) != len(encs_before) or any(a is not b for a, b in zip(encs, encs_before))
            if changed:
                ctx.note("pack_changed_the_callers_encryptor_list")  # not a verdict by itself; its consequence is judged below
            if how != "default_encryptor_object" and (j % 3 == 0 or changed):
                p2 = rng.randrange(1, ecies.P256_N)
                key2 = gen_session_key(ctx, rng)
                encs.append(B.EccEncryptor(sel, GB.private_key_obj(ns, p2).public_key))
                ctx.ev()
                ctx.bin("recipient_added_to_the_same_list_after_a_default_pack")
                try:
                    blk2 = B.InitEccAuthBlock(sel).pack(key2, encs)
                    ctx.mon("pack")
                except Exception as e:
                    ctx.violation("pack_raises", {"exc": fmt_exc(e), "how": "recipient added to the same list after a default pack"}, rp)
                    continue
                check_block(ctx, blk2, sel, p2, key2, dict(rp, key=key2.hex(), priv=hex(p2)), "recipient_added_to_the_same_list_after_a_default_pack")
    finally:
        pin.remove()


def invalid_point(rng, cls):
    p = ecies.P256_P
    while True:
        if cls == "off_curve_random":
            x, y = rng.randrange(p), rng.randrange(p)
        elif cls == "x_ge_p":
            x, y = p + rng.randrange(0, (1 << 256) - p), rng.randrange(p)
        elif cls == "x_equals_p":
            x, y = p, rng.randrange(p)
        elif cls == "y_ge_p":
            gx, gy = ecies.pub_of(rng.randrange(1, ecies.P256_N))
            x, y = gx, p + rng.randrange(0, (1 << 256) - p)
        elif cls == "zero_zero":
            x, y = 0, 0
        elif cls == "on_twist":
            # a point (x, y) with y^2 = x^3 - 3x + b' for another b: take a curve point and change x so that rhs is a non-residue
            x = rng.randrange(p)
            rhs = (x * x * x - 3 * x + ecies.P256_B) % p
            if pow(rhs, (p - 1) // 2, p) == 1:
                continue
            y = rng.randrange(1, p)
        elif cls in ("y_plus_1", "y_minus_1"):
            gx, gy = ecies.pub_of(rng.randrange(1, ecies.P256_N))
            x, y = gx, (gy + (1 if cls == "y_plus_1" else -1)) % p
        elif cls == "x_plus_p_congruent_to_a_curve_point":
            # (x, y) ON the curve with x so small that x + p still fits in 32 bytes: the encoded value is out of range although it
            # is congruent to a valid coordinate
            while True:
                small = rng.randrange(1, 1 << 40)
                rhs = (small ** 3 - 3 * small + ecies.P256_B) % p
                if pow(rhs, (p - 1) // 2, p) == 1:
                    return small + p, pow(rhs, (p + 1) // 4, p)
        elif cls == "valid_x_wrong_y_random":
            gx, gy = ecies.pub_of(rng.randrange(1, ecies.P256_N))
            x, y = gx, rng.randrange(p)
        else:
            raise ValueError(cls)
        if not ecies.on_curve(x, y):
            return x, y


def run_unwrap(ns, ctx, spec):
    B = ns.bec2file
    rng = ctx.rng
    for j in range(spec["n"]):
        idx = spec["i"] + 8 * j
        priv, sname = edge_scalar(rng, idx)
        priv = min(priv, ecies.P256_N - 1)
        sel = idx % 4
        key = gen_session_key(ctx, rng)
        dec = GB.encryptor_for(ns, {"kind": "ecc", "sel": sel, "priv": priv}, True)
        # ---- valid block built by the model: must open to the key --------------------------------
        eph, en = edge_scalar(rng, idx // 3 + 1)
        eph = min(eph, ecies.P256_N - 1)
        blk = ecies.make_block(sel, eph, ecies.pub_of(priv), key)
        rp = {"kind": "unwrap", "priv": hex(priv), "eph": hex(eph), "sel": sel, "key": key.hex()}
        ctx.ev()
        ctx.bin(sname)
        ctx.bin(en)
        ctx.distinct("unwrap", priv, eph, sel, key)
        try:
            got = dec.decrypt(blk[1:])
            ctx.mon("decrypt")
            ctx.bin("model_block_opened_by_real_decryptor")
            if bytes(got) != key:
                ctx.violation("real_decryptor_gives_other_key_for_model_built_block", {"got": got, "expected": key}, rp)
        except Exception as e:
            ctx.violation("real_decryptor_rejects_model_built_block", {"exc": fmt_exc(e)}, rp)
        # ---- invalid ephemeral points: must be refused ------------------------------------------------
        cls = INVALID_CLASSES[idx % len(INVALID_CLASSES)]
        ct = blk[66:]
        if cls == "truncated_point":
            raw = blk[1 : 1 + rng.randrange(1, 65)]
        else:
            x, y = invalid_point(rng, cls)
            raw = b"\x04" + x.to_bytes(32, "big") + y.to_bytes(32, "big") + ct
        rp2 = dict(rp, invalid_class=cls, raw=raw.hex())
        ctx.ev()
        ctx.bin("invalid:" + cls)
        ctx.distinct("invalid", cls, raw)
        for via in ("decrypt", "unpack"):
            try:
                if via == "decrypt":
                    res = dec.decrypt(raw)
                else:
                    res = B.InitEccAuthBlock.unpack(bytes((sel,)) + raw, [dec])[1]
                ctx.mon("decrypt")
                ctx.violation("invalid_ephemeral_point_accepted:" + cls, {"via": via, "returned": res}, rp2)
            except Exception as e:
                ctx.exc(e)
                ctx.mon("decrypt")
        if j == 0:
            ctx.sample({"kind": "unwrap", "invalid_class": cls, "raw": raw})
        # appended bytes after the ciphertext: recorded only
        if idx % 16 == 0:
            try:
                dec.decrypt(blk[1:] + b"\x00")
                ctx.note("bytes_after_ciphertext_accepted")
            except Exception:
                ctx.note("bytes_after_ciphertext_refused")


def run_firstuse(ns, ctx, spec):
    from ..sched import yieldrun

    B = ns.bec2file
    EC = ns.ellipticcurve
    rng = ctx.rng
    i = spec["i"]
    nthreads = (2, 3, 4, 6)[i % 4]
    codes = yieldrun.code_objects_of_module(ns.plugin, ns.crypto) + yieldrun.code_objects_of(B.EccEncryptor, B.InitEccAuthBlock, B.AuthBlock)
    codes += [getattr(EC.PointJacobi, f).__code__ for f in ("_maybe_precompute", "__mul__", "_mul_precompute") if hasattr(EC.PointJacobi, f)]
    privs = [rng.randrange(1, ecies.P256_N) for _ in range(nthreads)]
    sels = [rng.randrange(4) for _ in range(nthreads)]
    keys = [rng.randbytes(16) for _ in range(nthreads)]
    # recipients from SubjectPublicKeyInfo written by the model: loading a public key multiplies nothing
    encs = [B.EccEncryptor(sels[t], ns.crypto.create_public_ecc_key_from_der_fmt(ecies.spki_der(ecies.pub_of(privs[t])))) for t in range(nthreads)]

    def body(t):
        return lambda: B.InitEccAuthBlock(sels[t]).pack(keys[t], [encs[t]])

    res, y = yieldrun.run_concurrently([body(t) for t in range(nthreads)], codes, sleep=0.0002, max_yields=6000, timeout=150, stagger=(0.0, 0.004, 0.015, 0.04, 0.1)[i % 5])
    ctx.bin("first_blocks_of_the_process_packed_by_concurrent_threads")
    ctx.mon("line_yields_injected", y)
    ctx.mon("pack", nthreads)
    for t, r in enumerate(res):
        ctx.ev()
        ctx.distinct("firstuse", i, privs[t], keys[t])
        rp = {"kind": "firstuse", "i": i}
        if r is None:
            ctx.note("thread_still_running_after_timeout(inconclusive)")
        elif r[0] == "exc":
            ctx.violation("pack_raises", {"exc": r[1][:200], "how": "first blocks of the process packed by concurrent threads", "threads": nthreads}, rp)
        else:
            check_block(ctx, r[1], sels[t], privs[t], keys[t], rp, "first_blocks_of_the_process_packed_by_concurrent_threads")
    # and again, one after the other
    for t in range(nthreads):
        ctx.ev()
        try:
            blk = body(t)()
        except Exception as e:
            ctx.violation("pack_raises", {"exc": fmt_exc(e), "how": "after the first blocks were packed by concurrent threads"}, {"kind": "firstuse", "i": i})
            continue
        check_block(ctx, blk, sels[t], privs[t], keys[t], {"kind": "firstuse", "i": i}, "after_first_blocks_packed_by_concurrent_threads")


def run_shard(spec, ctx):
    ns = load()
    k = spec["kind"]
    if k == "firstuse":
        run_firstuse(ns, ctx, spec)
        return
    if k == "wrap":
        run_wrap(ns, ctx, spec)
    elif k == "default":
        run_default(ns, ctx, spec)
    elif k == "threads":
        run_threads(ns, ctx, spec)
    elif k == "reuse":
        run_reuse(ns, ctx, spec)
    else:
        run_unwrap(ns, ctx, spec)


def replay(rec, ctx):
    ns = load()
    k = rec.get("kind")
    if k == "firstuse":
        run_firstuse(ns, ctx, {"i": rec["i"]})
    elif k == "reuse":
        run_reuse(ns, ctx, {"n": 130, "i": 0})
    elif k == "threads":
        run_threads(ns, ctx, {"rounds": 3})
    elif k == "default":
        run_default(ns, ctx, {"n": 12, "i": 0})
    elif k == "unwrap":
        run_unwrap(ns, ctx, {"n": 20, "i": 0})
    else:
        run_wrap(ns, ctx, {"n": 8, "i": 0})
