"""C20 - shared curve objects and the reader-writer lock are safe under every schedule.

Controlled-schedule monitors on the real code:
 * points: thread A is parked at every LINE event of its lazy table build / in-place
   rescale (sys.monitoring), thread B runs a complete operation on the same object, both
   results are compared with sequential results on private copies;
 * RW lock: the lock's `threading` is replaced by a namespace whose Lock operations are
   scheduling points; all interleavings of bounded reader/writer configurations are
   enumerated depth-first on the real RWLock code, the holder-set invariant is evaluated
   at every critical-section entry and deadlock = no enabled thread.
"""
import pickle
import sys
import threading
import time

from ..ctx import fmt_exc
from ..load import load
from ..sched import locksched as LS
from ..sched.preempt import Preempter

ID = "C20"
LEVEL = "model_checking"
RULE = (
    "point schedules: (shared object kind: fresh generator with empty table / unscaled public point, operation of A, operation of B, preemption index k) with k ranging over "
    "the LINE events of A inside _maybe_precompute, scale, __mul__, mul_add, to_affine, _mul_precompute, __eq__, x, y (every event thorough, every 3rd quick plus all events of "
    "the two state-changing functions); lock schedules: ALL interleavings at lock-operation granularity of 1R+1W, 2R, 2R+1W, 1R+2W (quick) and 2R+2W, 3R+1W, 2 acquisitions per thread "
    "(thorough) + seeded random schedules with extra preemption points at every source line of _rwlock.py + an uncontrolled stress run. A state = (per-thread progress and pending "
    "operation, lock owners, holder set, the two light-switch counters read back from the real object); distinct = distinct states / preemption points"
)
ASSUMPTIONS = [
    "preemption is explored at source-line granularity (what the property quantifies over); interleavings inside one line / inside CPython bytecode are not explored",
    "bounded configurations: <= 4 threads, <= 2 acquisitions each; fairness / starvation is not claimed",
    "the uncontrolled stress run can only add violations; its watchdog is never a verdict",
]
TIMEOUT = {"quick": 1500, "thorough": 10 * 3600}
MAX_EXTRA = ("max_simultaneous_readers",)


def plan(tier, seed):
    q = tier == "quick"
    jobs = []
    curves = ["SECP112r1", "SECP128r1"] if q else ["SECP112r1", "SECP128r1", "NIST192p", "NIST256p"]
    pairs = [(k, a, b) for k, ops in (("gen", GEN_OPS), ("pub", PUB_OPS)) for a in ops for b in ops]
    # a generator-type point that is ALSO unscaled (z != 1; direct construction): table construction and in-place rescaling on one object
    pairs += [("genz", a, b) for a in ("mulk", "scale", "to_affine") for b in ("mulk", "scale", "to_affine", "mul_add_other")]
    # two DIFFERENT unscaled points that share nothing but their curve object
    pairs += [("curve", a, b) for a in ("xy", "scale", "to_affine", "mulk") for b in ("xy", "scale", "to_affine")]
    for ci, cname in enumerate(curves):
        for pi in range(0, len(pairs), 3):
            jobs.append({"name": "pt_%s_%02d" % (cname, pi), "spec": {"kind": "points", "curve": cname, "pairs": pairs[pi : pi + 3], "step": (8 if q else 1) * (1 if ci < 1 else 2)}})
    cfgs = [("1R+1W", 1, 1, 1), ("2R", 2, 0, 1), ("2R+1W", 2, 1, 1), ("1R+2W", 1, 2, 1), ("1R+1W x2", 1, 1, 2)]
    for name, r, w, rep in cfgs:
        jobs.append({"name": "lock_" + name.replace("+", "_").replace(" ", ""), "spec": {"kind": "lock", "cfg": name, "r": r, "w": w, "rep": rep, "prefix": []}})
    if not q:
        # (visited-state pruning makes prefix sharding pointless: one shard per configuration)
        for name, r, w, rep in (("2R+2W", 2, 2, 1), ("3R+1W", 3, 1, 1), ("2R+1W x2", 2, 1, 2), ("1R+2W x2", 1, 2, 2), ("3R+2W", 3, 2, 1)):
            jobs.append({"name": "lock_" + name.replace("+", "_").replace(" ", ""), "spec": {"kind": "lock", "cfg": name, "r": r, "w": w, "rep": rep, "prefix": []}})
    for i in range(4 if q else 16):
        jobs.append({"name": "lockrand%02d" % i, "spec": {"kind": "lockrand", "n": 700 if q else 30000}})
    jobs.append({"name": "stress", "spec": {"kind": "stress", "seconds": 4 if q else 60}})
    for i in range(2 if q else 8):
        jobs.append({"name": "edwards%02d" % i, "spec": {"kind": "edwards", "n": 4 if q else 24}})
    return jobs


def mandatory_bins(tier):
    b = ["points_trial", "preempt_in:_maybe_precompute", "preempt_in:scale", "shared_generator_fresh_table", "shared_public_point_unscaled", "shared_generator_type_point_unscaled", "two_unscaled_points_sharing_only_their_curve_object", "op_a:" + "mulk", "op_b:verifies", "op_b:pickle",
         "lock_cfg:1R+1W", "lock_cfg:2R", "lock_cfg:2R+1W", "lock_cfg:1R+2W", "lock_cfg:1R+1W x2", "lock_complete_exploration", "two_readers_hold_together", "lock_random_line_schedules", "uncontrolled_stress", "edwards_generator_first_use_by_concurrent_threads"]
    if tier != "quick":
        b += ["lock_cfg:2R+2W", "lock_cfg:3R+1W"]
    return b


def finish(agg, tier):
    ex = agg["extra"]
    out = {
        "states": int(ex.get("lock_distinct_states", 0)) + int(ex.get("distinct_preemption_points", 0)),
        "transitions": int(ex.get("lock_transitions", 0)) + int(agg["bins"].get("points_trial", 0)),
        "traces_validated_against_impl": int(ex.get("lock_executions", 0)) + int(agg["bins"].get("points_trial", 0)),
        "exhaustive": True,
        "exhaustive_scope": "all lock-operation interleavings of the listed bounded reader/writer configurations on the real RWLock code; preemption points of the point operations are enumerated per the rule (sampled in the quick tier)",
        "note_states": "lock states are per-shard distinct state digests summed over shards (configurations are disjoint); every execution is a run of the real code, i.e. validated against the implementation by construction",
    }
    return out


# ======================================================================================= points
GEN_OPS = ["mulk", "mul_add_self", "verifies", "pickle", "eq"]
PUB_OPS = ["scale", "to_affine", "mul_add_other", "mulk", "verifies_pub", "xy", "pickle"]


def run_points(ns, ctx, spec):
    EC = ns.ellipticcurve
    PJ, INF = EC.PointJacobi, EC.INFINITY
    cv = [c for c in ns.curves.curves if c.name == spec["curve"]][0]
    curve = cv.curve
    n = int(cv.order)
    p = int(curve.p())
    gx, gy = int(cv.generator.x()), int(cv.generator.y())
    rng = ctx.rng
    d = rng.randrange(2, n)
    base = PJ(curve, gx, gy, 1, n)
    Q0 = base * d
    QX, QY, QZ = [int(v) for v in Q0._PointJacobi__coords]
    assert QZ != 1
    k1, k2, k3 = rng.randrange(2, n), rng.randrange(2, n), rng.randrange(2, n)
    h = rng.randrange(1, n)
    # a valid signature (r, s) for hash h under private key d, so that 'verifies' has a defined truth value
    while True:
        kk = rng.randrange(2, n)
        R = PJ(curve, gx, gy, 1, n) * kk
        r = int(R.x()) % n
        s = pow(kk, -1, n) * (h + r * d) % n
        if r and s:
            break
    sig = ns.ecdsa_mod.Signature(r, s)

    def aff(P):
        if P is INF or P == INF:
            return None
        return (int(P.x()) % p, int(P.y()) % p)

    Q2 = base * (d ^ 0x55)
    Q2X, Q2Y, Q2Z = [int(v) for v in Q2._PointJacobi__coords]

    def mk_other():
        return PJ(curve, Q2X, Q2Y, Q2Z, n)

    def mk(kind):
        if kind == "gen":
            return PJ(curve, gx, gy, 1, n, generator=True)
        if kind == "genz":
            return PJ(curve, QX, QY, QZ, n, generator=True)
        return PJ(curve, QX, QY, QZ, n)

    def op(name, kind):
        if name == "mulk":
            return lambda S: aff(S * k1)
        if name == "mul_add_self":
            return lambda S: aff(S.mul_add(k1, PJ(curve, QX, QY, QZ, n), k2))
        if name == "mul_add_other":
            return lambda S: aff(PJ(curve, gx, gy, 1, n).mul_add(k2, S, k3))
        if name == "verifies":  # shared generator, private public point
            return lambda S: ns.ecdsa_mod.Public_key(S, PJ(curve, QX, QY, QZ, n), verify=False).verifies(h, sig)
        if name == "verifies_pub":  # private generator, shared public point (rescaled in place by mul_add)
            return lambda S: ns.ecdsa_mod.Public_key(PJ(curve, gx, gy, 1, n, generator=True), S, verify=False).verifies(h, sig)
        if name == "scale":
            return lambda S: aff(S.scale())
        if name == "to_affine":
            return lambda S: aff(S.to_affine())
        if name == "xy":
            return lambda S: (int(S.x()) % p, int(S.y()) % p)
        if name == "eq":
            return lambda S: (S == PJ(curve, gx * 4 % p, gy * 8 % p, 2, n)) if kind == "gen" else (S == PJ(curve, QX, QY, QZ, n))
        if name == "pickle":
            return lambda S: aff(pickle.loads(pickle.dumps(S)) * k2)
        raise ValueError(name)

    codes = [getattr(PJ, f).__code__ for f in ("_maybe_precompute", "scale", "__mul__", "mul_add", "to_affine", "_mul_precompute", "__eq__", "x", "y")]
    # ... and whatever the curve class itself defines (state kept on the shared curve object)
    from ..sched import yieldrun

    curve_codes = [c for c in yieldrun.code_objects_of(type(curve)) if c not in codes]
    codes += curve_codes
    curve_funcs = {c.co_name for c in curve_codes}
    pre = Preempter(codes)
    points_seen = set()
    try:
        for kind, an, bn in spec["pairs"]:
            fa, fb = op(an, kind), op(bn, kind)
            want_a = fa(mk(kind))
            want_b = fb(mk(kind)) if kind != "curve" else fb(mk_other())
            ctx.bin({"gen": "shared_generator_fresh_table", "pub": "shared_public_point_unscaled", "genz": "shared_generator_type_point_unscaled", "curve": "two_unscaled_points_sharing_only_their_curve_object"}[kind])
            ctx.bin("op_a:" + an)
            ctx.bin("op_b:" + bn)
            # how many LINE events does A produce?
            S = mk(kind)
            ra, _, _, N = pre.run(lambda: fa(S), None, None)
            important = [i for i in range(N)]
            step = spec["step"]
            # find the events inside the two state-changing functions with a probe run that records event -> function
            S = mk(kind)
            order = []
            orig = pre._line

            def probe(code, line, order=order):
                if threading.get_ident() == pre.a_ident:
                    order.append(code.co_name)
                return orig(code, line)

            pre.mon.register_callback(4, pre.mon.events.LINE, probe)
            pre.run(lambda: fa(S), None, None)
            pre.mon.register_callback(4, pre.mon.events.LINE, orig)
            ks = sorted({i for i in range(0, N, step)} | {i for i, f in enumerate(order) if kind == "curve" and (f in ("x", "y", "scale", "to_affine") or f in curve_funcs)} | {i for i, f in enumerate(order) if f == "scale" and (kind in ("pub", "genz") or step == 1)} | {i for i, f in enumerate(order) if kind == "genz" and f in ("__mul__", "_mul_precompute") and i % 3 == 0} | {i for i, f in enumerate(order) if f == "_maybe_precompute" and (step == 1 or i % (step // 2 + 1) == 0)})
            for k in ks:
                S = mk(kind)
                S2 = S if kind != "curve" else mk_other()
                ra, rb, where, cnt = pre.run(lambda: fa(S), lambda: fb(S2), k)
                ctx.ev()
                ctx.bin("points_trial")
                rp = {"kind": "points", "curve": cv.name, "shared": kind, "op_a": an, "op_b": bn, "k": k}
                if where is None:
                    continue
                ctx.bin("preempt_in:" + where[0])
                points_seen.add((kind, an, where))
                ctx.distinct(cv.name, kind, an, bn, where, k)
                if ra != ("ok", want_a):
                    ctx.violation("preempted_operation_returns_other_result:%s:%s" % (kind, an), {"parked_in": where, "other_thread_ran": bn, "got": ra, "expected": want_a}, rp)
                if rb != ("ok", want_b):
                    ctx.violation("operation_concurrent_with_%s_returns_other_result:%s:%s" % (where[0].strip("_"), kind, bn), {"parked_in": where, "parked_op": an, "got": rb, "expected": want_b}, rp)
                # the object left behind must still be the same group element
                try:
                    after = aff(S * 1) if kind != "gen" else aff(S * k3)
                    want_after = (aff(mk(kind) * 1) if kind != "gen" else aff(mk(kind) * k3))
                    if kind == "curve" and aff(S2 * 1) != aff(mk_other() * 1):
                        after = None
                    if after != want_after:
                        ctx.violation("shared_object_damaged_after_concurrent_use:" + kind, {"parked_in": where, "op_a": an, "op_b": bn}, rp)
                except Exception as e:
                    ctx.violation("shared_object_damaged_after_concurrent_use:" + kind, {"exc": fmt_exc(e)}, rp)
            ctx.mon("preemption_trials", len(ks))
        ctx.add_extra("distinct_preemption_points", len(points_seen))
        held = held_real_locks(ns)
        ctx.mon("quiescent_lock_scan")
        if held:
            ctx.violation("package_level_lock_left_held_after_all_threads_finished", {"locks": held, "after": "point operations"}, {"kind": "points", "curve": cv.name, "pairs": spec["pairs"]})
        ctx.sample({"kind": "points", "curve": cv.name, "pairs": spec["pairs"], "preemption_points": len(points_seen)})
    finally:
        pre.close()


def held_real_locks(ns):
    """module-level and class-level locks of the ecdsa package that are held although no thread of the workload is running
    any more (a lock taken on some path and never given back)"""
    import sys

    prefix = ns.ecdsa.__name__
    out = []
    for mname, mod in list(sys.modules.items()):
        if mod is None or not (mname == prefix or mname.startswith(prefix + ".")) or ".test_" in mname:
            continue
        for name, val in list(vars(mod).items()):
            cands = [(name, val)]
            if isinstance(val, type) and val.__module__ == mname:
                cands += [(name + "." + an, av) for an, av in vars(val).items()]
            for nm, v in cands:
                if isinstance(v, _REAL_LOCK_TYPES):
                    try:
                        if v.locked() if hasattr(v, "locked") else not v.acquire(False):
                            out.append(mname.rsplit(".", 1)[-1] + "." + nm)
                    except Exception:
                        pass
    return out


def run_edwards(ns, ctx, spec):
    """first use of fresh Edwards generator-type points (lazy table) by several threads at once, interleaved at every source line
    of the table construction; results against sequential values; afterwards no package-level lock may be left held and a
    further first use on another point must complete"""
    EC = ns.ellipticcurve
    rng = ctx.rng
    mon = sys.monitoring
    TOOL = 5
    mon.use_tool_id(TOOL, "bvm-edw-yield")
    PE = EC.PointEdwards
    codes = [v.__code__ for v in vars(PE).values() if hasattr(v, "__code__")]
    count = [0]

    def on_line(code, line):
        count[0] += 1
        if count[0] < 40000:
            time.sleep(0.0001)

    mon.register_callback(TOOL, mon.events.LINE, on_line)

    def fresh(cv):
        g = cv.generator
        return PE(g.curve(), int(g.x()), int(g.y()), 1, int(g.x()) * int(g.y()), int(g.order()), generator=True)

    def aff(P):
        return (int(P.x()), int(P.y()))

    try:
        for trial in range(spec["n"]):
            cv = [c for c in ns.curves.curves if c.name == ("Ed25519", "Ed448")[trial % 2]][0]
            other = [c for c in ns.curves.curves if c.name == ("Ed448", "Ed25519")[trial % 2]][0]
            nthreads = (2, 3)[trial // 2 % 2]
            ks = [rng.randrange(2, int(cv.order)) for _ in range(nthreads)]
            want = [aff(fresh(cv) * k) for k in ks]
            S = fresh(cv)
            for c in codes:
                mon.set_local_events(TOOL, c, mon.events.LINE)
            res = [None] * nthreads
            bar = threading.Barrier(nthreads)

            def worker(i):
                try:
                    bar.wait(30)
                    res[i] = ("ok", aff(S * ks[i]))
                except BaseException as e:  # noqa
                    res[i] = ("exc", repr(e))

            ths = [threading.Thread(target=worker, args=(i,), daemon=True) for i in range(nthreads)]
            for t in ths:
                t.start()
            for t in ths:
                t.join(180)
            for c in codes:
                mon.set_local_events(TOOL, c, 0)
            ctx.ev(nthreads)
            ctx.bin("edwards_generator_first_use_by_concurrent_threads")
            ctx.distinct("edwards", cv.name, trial, ks)
            rp = {"kind": "edwards", "curve": cv.name, "threads": nthreads}
            if any(t.is_alive() for t in ths):
                ctx.violation("edwards_first_use_does_not_return", {"curve": cv.name, "held_locks": held_real_locks(ns)}, rp)
                break
            for i, r in enumerate(res):
                if r != ("ok", want[i]):
                    ctx.violation("edwards_concurrent_first_use_returns_other_result", {"curve": cv.name, "got": r, "expected": want[i]}, rp)
            held = held_real_locks(ns)
            ctx.mon("quiescent_lock_scan")
            if held:
                ctx.violation("package_level_lock_left_held_after_all_threads_finished", {"locks": held, "after": "concurrent first use of an Edwards generator"}, rp)
                break
            # a later first use of another point still completes
            T = fresh(other)
            box = []
            t3 = threading.Thread(target=lambda: box.append(aff(T * 7)), daemon=True)
            t3.start()
            t3.join(120)
            if t3.is_alive() or box != [aff(fresh(other) * 7)]:
                ctx.violation("edwards_first_use_does_not_return" if t3.is_alive() else "edwards_concurrent_first_use_returns_other_result", {"curve": other.name, "held_locks": held_real_locks(ns)}, rp)
                break
        ctx.mon("line_yields_injected", count[0])
        ctx.sample({"kind": "edwards", "trials": spec["n"], "line_yields": count[0]})
    finally:
        for c in codes:
            mon.set_local_events(TOOL, c, 0)
        mon.register_callback(TOOL, mon.events.LINE, None)
        mon.free_tool_id(TOOL)


# ======================================================================================= lock
_REAL_LOCK_TYPES = (type(threading.Lock()), type(threading.RLock()))


def adopt_real_locks(ns, root):
    """Locks that were NOT created through the fake `threading` namespace while the object was constructed - class-level
    attributes (created when the class body ran at import time) or module globals - would be real locks outside the
    controlled scheduler.  Each distinct real lock reachable from the lock object is replaced by ONE controlled lock
    (identity preserved, so a lock shared between two parts stays shared): class attributes are shadowed on the
    instance, module globals are swapped and put back by restore_module_locks()."""
    Fake = ns.rwlock.threading.Lock
    FakeR = ns.rwlock.threading.RLock
    memo = {}

    def fake_for(real):
        if id(real) not in memo:
            memo[id(real)] = FakeR() if isinstance(real, _REAL_LOCK_TYPES[1]) else Fake()
        return memo[id(real)]

    objs, seen = [root], set()
    while objs:
        o = objs.pop()
        if id(o) in seen or not hasattr(o, "__dict__"):
            continue
        seen.add(id(o))
        for klass in type(o).__mro__:
            if klass is object:
                continue
            for name, val in list(vars(klass).items()):
                if isinstance(val, _REAL_LOCK_TYPES) and name not in vars(o):
                    setattr(o, name, fake_for(val))
        for name, val in list(vars(o).items()):
            if isinstance(val, _REAL_LOCK_TYPES):
                setattr(o, name, fake_for(val))
            elif hasattr(val, "__dict__") and type(val).__module__ == type(root).__module__:
                objs.append(val)
    saved = ns.__dict__.setdefault("_bvm_saved_module_locks", {})
    for name, val in list(vars(ns.rwlock).items()):
        if isinstance(val, _REAL_LOCK_TYPES):
            saved.setdefault(name, val)
            setattr(ns.rwlock, name, fake_for(val))
        elif name in saved:
            setattr(ns.rwlock, name, fake_for(saved[name]))
    return len(memo)


def restore_module_locks(ns):
    for name, val in ns.__dict__.get("_bvm_saved_module_locks", {}).items():
        setattr(ns.rwlock, name, val)


def lock_bodies(ns, ex, r, w, rep):
    lock = ns.rwlock.RWLock()
    ex.adopted_locks = adopt_real_locks(ns, lock)
    ex.rw = lock
    ex.idle_state = _plain_state(lock)  # counters / sets of a lock nobody has touched yet

    def reader():
        for _ in range(rep):
            lock.reader_acquire()
            ex.enter("R")
            ex.point(("hold",))
            ex.leave()
            lock.reader_release()

    def writer():
        for _ in range(rep):
            lock.writer_acquire()
            ex.enter("W")
            ex.point(("hold",))
            ex.leave()
            lock.writer_release()

    return [reader] * r + [writer] * w


def _plain_state(o, depth=0):
    """the plain-data attributes of the lock object and of the helper objects it owns (counters, sets of thread ids, flags),
    whatever they are called: part of the visited-state key and of the quiescence check"""
    out = []
    for name, val in sorted(vars(o).items()):
        if isinstance(val, (bool, int, str, type(None))):
            out.append((name, val))
        elif isinstance(val, (set, frozenset, list, tuple, dict)):
            out.append((name, repr(sorted(val, key=repr)) if not isinstance(val, dict) else repr(sorted(val.items(), key=repr))))
        elif hasattr(val, "__dict__") and type(val).__module__ == type(o).__module__ and depth < 2:
            out.append((name, _plain_state(val, depth + 1)))
    return tuple(out)


def _idle_plain_state(ns):
    return _plain_state(ns.rwlock.RWLock())


def lock_state(ex):
    return (
        tuple(sorted(ex.progress.items())),
        tuple(sorted((tid, (op[0], getattr(op[1], "name", None)) if op and len(op) > 1 else (op[0] if op else None)) for tid, op in ex.pending.items())),
        tuple(sorted(ex.done)),
        tuple(l.owner for l in ex.locks),
        tuple(sorted(ex.holders.items())),
        _plain_state(ex.rw),
    )


def judge_execution(ctx, ex, cfg, rp):
    for what, detail in ex.violations:
        ctx.violation("rwlock:" + what, {"cfg": cfg, "holders": detail, "schedule": [c for c, _ in ex.trace]}, rp)
    if ex.deadlock is not None:
        ctx.violation("rwlock:deadlock", {"cfg": cfg, "blocked": ex.deadlock, "schedule": [c for c, _ in ex.trace]}, rp)
    if ex.failed:
        ctx.violation("rwlock:thread_raised", {"cfg": cfg, "errors": ex.failed, "schedule": [c for c, _ in ex.trace]}, rp)
    rw = getattr(ex, "rw", None)
    if rw is not None and ex.deadlock is None and not ex.failed and not ex.violations and not ex.pruned:
        # quiescent structural invariant: everything released, counters back to zero
        if any(l.owner is not None for l in ex.locks) or _plain_state(rw) != ex.idle_state:
            ctx.violation("rwlock:not_quiescent_after_all_threads_finished", {"cfg": cfg, "owners": [l.owner for l in ex.locks], "state": repr(_plain_state(rw))[:300], "schedule": [c for c, _ in ex.trace]}, rp)


def run_lock(ns, ctx, spec):
    cfg = spec["cfg"]
    r, w, rep = spec["r"], spec["w"], spec["rep"]
    states = set()
    transitions = 0
    execs = 0
    maxr = 0
    saved = ns.rwlock.threading

    def install(ex):
        ns.rwlock.threading = ex.namespace()

    try:
        for ex in LS.explore(lambda ex: lock_bodies(ns, ex, r, w, rep), install, lock_state, prefix=spec.get("prefix") or ()):
            execs += 1
            transitions += len(ex.trace)
            states.update(ex.states)
            maxr = max(maxr, ex.max_readers)
            ctx.ev()
            rp = {"kind": "lock", "cfg": cfg, "r": r, "w": w, "rep": rep, "schedule": [c for c, _ in ex.trace]}
            judge_execution(ctx, ex, cfg, rp)
            if execs == 1:
                ctx.sample({"kind": "lock", "cfg": cfg, "first_schedule": [c for c, _ in ex.trace]})
            if ctx.violation_counts and sum(ctx.violation_counts.values()) > 50:
                break
    finally:
        ns.rwlock.threading = saved
        restore_module_locks(ns)
    ctx.bin("lock_cfg:" + cfg)
    ctx.bin("lock_complete_exploration")
    ctx.mon("lock_executions", execs)
    ctx.add_extra("lock_executions", execs)
    ctx.add_extra("lock_transitions", transitions)
    ctx.add_extra("lock_distinct_states", len(states))
    ctx.max_extra("max_simultaneous_readers", maxr)
    for st in list(states)[:200000]:
        ctx.distinct(cfg, st)
    if r >= 2:
        if maxr >= 2:
            ctx.bin("two_readers_hold_together")
        elif not spec.get("prefix"):
            ctx.violation("rwlock:readers_never_hold_together", {"cfg": cfg, "executions": execs}, {"kind": "lock", "cfg": cfg, "r": r, "w": w, "rep": rep, "schedule": []})


def run_lockrand(ns, ctx, spec):
    """random schedules with additional preemption points at every source line of _rwlock.py"""
    rng = ctx.rng
    mon = sys.monitoring
    TOOLID = 5
    try:
        mon.use_tool_id(TOOLID, "bvm-rwlines")
    except ValueError:
        pass
    RW, LSW = ns.rwlock.RWLock, ns.rwlock._LightSwitch
    codes = [getattr(RW, f).__code__ for f in ("reader_acquire", "reader_release", "writer_acquire", "writer_release")] + [getattr(LSW, f).__code__ for f in ("acquire", "release")]
    cur = {"ex": None}

    def on_line(code, line):
        ex = cur["ex"]
        if ex is not None and ex.me() is not None and not ex.abort:
            ex.point(("line", None))

    mon.register_callback(TOOLID, mon.events.LINE, on_line)
    for c in codes:
        mon.set_local_events(TOOLID, c, mon.events.LINE)
    saved = ns.rwlock.threading
    states = set()
    try:
        for i in range(spec["n"]):
            r, w, rep = rng.choice(((1, 1, 1), (2, 1, 1), (1, 2, 1), (2, 2, 1), (3, 1, 1), (2, 1, 2), (1, 1, 2)))
            ex = LS.Execution(rng=rng)
            ns.rwlock.threading = ex.namespace()
            cur["ex"] = ex
            ex.run(lock_bodies(ns, ex, r, w, rep), lock_state)
            cur["ex"] = None
            ctx.ev()
            ctx.bin("lock_random_line_schedules")
            states.update(ex.states)
            ctx.add_extra("lock_transitions", len(ex.trace))
            rp = {"kind": "lockrand", "r": r, "w": w, "rep": rep, "schedule": [c for c, _ in ex.trace]}
            judge_execution(ctx, ex, "%dR+%dW x%d (line granularity)" % (r, w, rep), rp)
            if i == 0:
                ctx.sample({"kind": "lockrand", "threads": [r, w, rep], "schedule_length": len(ex.trace)})
        ctx.add_extra("lock_executions", spec["n"])
        ctx.add_extra("lock_distinct_states", len(states))
        ctx.mon("lock_executions", spec["n"])
    finally:
        cur["ex"] = None
        ns.rwlock.threading = saved
        restore_module_locks(ns)
        for c in codes:
            mon.set_local_events(TOOLID, c, 0)
        mon.register_callback(TOOLID, mon.events.LINE, None)
        try:
            mon.free_tool_id(TOOLID)
        except Exception:
            pass


def run_stress(ns, ctx, spec):
    """uncontrolled: real locks, many OS threads, tiny switch interval; the holder-set monitor is updated
    inside the critical section under its own lock.  Silence adds nothing; a breach is real."""
    lock = ns.rwlock.RWLock()
    mlock = threading.Lock()
    state = {"r": 0, "w": 0, "bad": 0, "max_r": 0, "ops": 0}
    stop = time.time() + spec["seconds"]
    old = sys.getswitchinterval()
    sys.setswitchinterval(1e-6)

    def reader():
        while time.time() < stop:
            lock.reader_acquire()
            with mlock:
                state["r"] += 1
                state["max_r"] = max(state["max_r"], state["r"])
                if state["w"]:
                    state["bad"] += 1
            time.sleep(0)
            with mlock:
                state["r"] -= 1
                state["ops"] += 1
            lock.reader_release()

    def writer():
        while time.time() < stop:
            lock.writer_acquire()
            with mlock:
                state["w"] += 1
                if state["w"] > 1 or state["r"]:
                    state["bad"] += 1
            time.sleep(0)
            with mlock:
                state["w"] -= 1
                state["ops"] += 1
            lock.writer_release()

    ts = [threading.Thread(target=reader, daemon=True) for _ in range(8)] + [threading.Thread(target=writer, daemon=True) for _ in range(4)]
    try:
        for t in ts:
            t.start()
        deadline = stop + 20
        for t in ts:
            t.join(max(0.1, deadline - time.time()))
    finally:
        sys.setswitchinterval(old)
    alive = [t for t in ts if t.is_alive()]
    ctx.ev(max(1, state["ops"]))
    ctx.bin("uncontrolled_stress")
    ctx.mon("stress_critical_sections", state["ops"])
    ctx.distinct("stress", state["ops"], state["max_r"])
    if state["bad"]:
        ctx.violation("rwlock:writer_holds_together_with_another_holder:uncontrolled_stress", {"breaches": state["bad"]}, {"kind": "stress"})
    if alive:
        ctx.note("stress_threads_still_blocked_after_deadline(inconclusive)")
    ctx.max_extra("max_simultaneous_readers", state["max_r"])
    ctx.sample({"kind": "stress", "critical_sections": state["ops"], "max_simultaneous_readers": state["max_r"]})


def run_shard(spec, ctx):
    ns = load()
    k = spec["kind"]
    if k == "points":
        run_points(ns, ctx, spec)
    elif k == "lock":
        run_lock(ns, ctx, spec)
    elif k == "lockrand":
        run_lockrand(ns, ctx, spec)
    elif k == "edwards":
        run_edwards(ns, ctx, spec)
    else:
        run_stress(ns, ctx, spec)


def replay(rec, ctx):
    ns = load()
    k = rec.get("kind")
    if k == "lock" or k == "lockrand":
        ex = LS.Execution(choices=rec.get("schedule") or ())
        saved = ns.rwlock.threading
        ns.rwlock.threading = ex.namespace()
        try:
            ex.run(lock_bodies(ns, ex, rec.get("r", 1), rec.get("w", 1), rec.get("rep", 1)), lock_state)
        finally:
            ns.rwlock.threading = saved
            restore_module_locks(ns)
        ctx.ev()
        judge_execution(ctx, ex, rec.get("cfg", "replay"), rec)
    elif k == "edwards":
        run_edwards(ns, ctx, {"n": 4})
    elif k == "points":
        run_points(ns, ctx, {"curve": rec["curve"], "pairs": [(rec["shared"], rec["op_a"], rec["op_b"])], "step": 1})
    else:
        run_stress(ns, ctx, {"seconds": 3})
