"""C03 - written bytes have exactly the documented BF3/BEC2 container layout.

The deciding oracle is the LayoutMonitor (bvm.monitors) hooked on
Bf3File.to_binary, Bec2File.to_binary and write_bf3_format: every output the real
writer produces - in this workload and in the appnote scripts - is compared with the
independent serialiser and parsed by the independent parser (OpenSSL MACs).  The
harness additionally opens every authentication block with the independent
container / ECIES models.
"""
import contextlib
import io
import os
import runpy
import shutil
import tempfile

from ..ctx import fmt_exc
from ..gen import bec2 as GB
from ..gen import files as G
from ..load import REPO, load
from ..monitors import LayoutMonitor
from ..refs import container, ecies
from ..refs import layout as L
from ..refs.layout import MComp

ID = "C03"
LEVEL = "exploration"
RULE = (
    "case = (file content incl. encrypted components, start offset, session key, framing BF3/BEC2 with an auth-block list); every "
    "to_binary / write_bf3_format call is observed by a hook and compared byte for byte with the independent serialiser and re-parsed "
    "by the independent parser; offsets 0,1,5,255,256,65535,65536 + random; tag insertion order != sorted order; all 15 ordered "
    "block lists; the four appnote scripts run under the same hooks. distinct = digest of (case, offset, key, blocks); non-trivial = "
    "at least one component"
)
ASSUMPTIONS = [
    "OpenSSL AES-128-CBC for all MACs and encrypted payloads; layout model written from the property text",
    "one empty line after the hex block is tolerated (the statement does not forbid it); every non-empty hex line is checked",
]
TIMEOUT = {"quick": 900, "thorough": 6 * 3600}
OPTIMIZED_SHARDS = ("bf3_02", "bec2_03")  # these shards also run under python -O
NSH = 16
OFFSETS = [0, 1, 5, 255, 256, 65535, 65536, 0x7FFFFFF0, 0x80000000, 0xFFFF0000]


def plan(tier, seed):
    jobs = [{"name": "appnotes", "spec": {"kind": "appnotes"}}]
    n = 12000 if tier == "quick" else 400000
    for i in range(NSH):
        jobs.append({"name": "bf3_%02d" % i, "spec": {"kind": "bf3", "n": n // NSH, "many": i < (1 if tier == "quick" else 4)}})
    for i in range(4 if tier == "quick" else 16):
        jobs.append({"name": "hist%02d" % i, "spec": {"kind": "histories", "n": 120 if tier == "quick" else 4000}})
    for i in range(2 if tier == "quick" else 8):
        jobs.append({"name": "threads%02d" % i, "spec": {"kind": "threads", "rounds": 4 if tier == "quick" else 60}})
    nb = 1280 if tier == "quick" else 40000
    for i in range(NSH):
        jobs.append({"name": "bec2_%02d" % i, "spec": {"kind": "bec2", "n": nb // NSH, "i": i}})
    return jobs


def mandatory_bins(tier):
    b = ["offset_%d" % o for o in OFFSETS] + ["offset_random", "tag_order_not_sorted", "encrypted_component", "zero_components", "eight_tags",
         "text_stream", "text_path", "bec2", "appnote_scripts", "block_cust_opened", "block_update_opened", "block_ecc_opened", "customer_key_in_slot", "histories_under_layout_hooks", "second_export_after_in_place_mutation", "more_than_255_components", "directory_larger_than_64k", "bec2_without_auth_blocks", "encrypted_payload_over_8k", "same_component_object_listed_twice", "exports_by_concurrent_threads", "one_object_exported_by_concurrent_threads", "description_is_a_dict_subclass", "unmarked_component_carrying_the_enc_02_tag", "encrypted_component_declared_shorter_than_blob", "text_of_a_binary_longer_than_16k", "second_export_after_tag_list_changed_in_place"]
    b += ["blocks_" + "+".join(l) for l in GB.all_block_lists()]
    return b


def mandatory_monitors(tier):
    return ["hook:Bf3File.to_binary", "hook:Bec2File.to_binary", "hook:write_bf3_format", "oracle:body_vs_model", "oracle:text_envelope", "oracle:bec2_header"]


def gen_case_c03(rng):
    case = G.gen_case(rng)
    if rng.random() < 0.35:
        # add an encrypted component (flag + tag, as set_config makes it, or flag with other tags)
        blob = G.gen_payload(rng)
        if rng.random() < 0.12:
            blob = rng.randbytes(rng.choice((1024, 1025, 1040, 2048, 2049, 4100)))
        elif case.comps and rng.random() < 0.25:
            blob = rng.choice(case.comps).blob  # byte-identical to the content of a plain component of the same file
        desc = [(0xC3, b"\x03"), (0xC2, b"\x02"), (0xC1, b"\x03"), (0xC5, b"\x01")] if rng.random() < 0.7 else [(t, v) for t, v in G.gen_desc(rng, maxbytes=207) if t != 0xC2] + [(0xC2, b"\x02")]
        if len({t for t, _ in desc}) == len(desc):
            declared = len(blob)
            if rng.random() < 0.3 and len(blob) > 1:
                # the declared length of an encrypted component may be smaller than its blob (content followed by other bytes): the
                # whole blob is padded and encrypted, the declared length is only a directory field
                declared = rng.choice((1, len(blob) - 1, max(1, len(blob) - 16), max(1, len(blob) - 17), rng.randrange(1, len(blob))))
                if blob[declared:] == bytes(len(blob) - declared):
                    blob = blob[:-1] + b"\x5a"
            case.comps.insert(rng.randrange(len(case.comps) + 1), MComp(desc, blob, declared, True))
    if rng.random() < 0.1:
        case.comps.append(MComp([(t, bytes([t])) for t in (9, 3, 200, 1, 0xC3, 7, 0, 255)], b"eight tags", None, False))
    if rng.random() < 0.12:
        # a component NOT marked for encryption whose tag list nevertheless says ENC = 02 (payload kept in its stored form, or the
        # tag used as plain metadata): the writer stores the blob verbatim - the flag decides, not the tag
        blob = G.gen_payload(rng)
        desc = [(t, v) for t, v in G.gen_desc(rng, maxbytes=200) if t != 0xC2]
        desc.insert(rng.randrange(len(desc) + 1), (0xC2, b"\x02"))
        case.comps.insert(rng.randrange(len(case.comps) + 1), MComp(desc, blob, None if rng.random() < 0.5 else len(blob), False))
    return case


def note_bins(ctx, case):
    if not case.comps:
        ctx.bin("zero_components")
    for c in case.comps:
        ts = [t for t, _ in c.desc]
        if ts != sorted(ts):
            ctx.bin("tag_order_not_sorted")
        if c.encrypted:
            ctx.bin("encrypted_component")
            if c.declared < len(c.blob):
                ctx.bin("encrypted_component_declared_shorter_than_blob")
        if len(ts) >= 8:
            ctx.bin("eight_tags")
        if not c.encrypted and any(t == 0xC2 and bytes(v) == b"\x02" for t, v in c.desc):
            ctx.bin("unmarked_component_carrying_the_enc_02_tag")


def run_bf3(ns, ctx, mon, case, key, offset, scratch, idx, dup=False):
    rp = {"kind": "bf3", "case": case.to_json(), "key": key.hex(), "offset": offset}
    mon.current_replay = rp
    ctx.ev()
    ctx.distinct("bf3", case.digest_parts(), key, offset)
    note_bins(ctx, case)
    obj = G.build_real(ns, case)
    if obj.components and idx % 7 == 2:
        # descriptions given as dict SUBCLASSES (OrderedDict, defaultdict, a user class): still dicts, so their insertion order is the
        # tag order of the file
        import collections

        class TagDict(dict):
            pass

        for j, c in enumerate(obj.components):
            items = list(c.description.items())
            c.description = (collections.OrderedDict(items), collections.defaultdict(bytes, items), TagDict(items))[j % 3]
        ctx.bin("description_is_a_dict_subclass")
    if dup and obj.components:
        # the SAME component object listed twice (e.g. one image stored under two slots): the hook derives the
        # model from obj.components at call time, so the expected file simply has the entry and payload twice
        j = ctx.rng.randrange(len(obj.components))
        obj.components.insert(ctx.rng.randrange(len(obj.components) + 1), obj.components[j])
        ctx.bin("same_component_object_listed_twice")
    try:
        first = obj.to_binary(offset, key)
        if not dup and not (obj.components and idx % 7 == 2):
            # the hook models the object as it stands; this one models what the CALLER passed (flag, tags, blob, declared length)
            ctx.mon("oracle:first_export_vs_model_of_the_callers_arguments")
            want = L.serialise_body([MComp([(t, bytes(v)) for t, v in c.desc], c.blob, c.declared, c.encrypted) for c in case.comps], offset, key)
            if bytes(first) != want:
                ctx.violation("export_differs_from_model_built_from_the_constructor_arguments", {"what": "Bf3File.to_binary output differs from the independent serialisation of the components as the caller passed them", "observed_head": bytes(first)[:64].hex(), "expected_head": want[:64].hex()}, rp)
        if idx % 3 == 0:
            buf = io.StringIO()
            buf.write("prefix already in the stream\n" if idx % 6 == 0 else "")
            obj.write_file(buf, key)
            ctx.bin("text_stream")
        elif idx % 3 == 1:
            p = os.path.join(scratch, "f%d.bf3" % (idx % 7))
            obj.write_file(p, key)
            ctx.bin("text_path")
        # history: mutate components IN PLACE (same objects) and export again with the same key; the hook
        # re-derives the model from the object at call time, so stale cached bytes/MACs show up
        if case.comps and idx % 2 == 0:
            rng = ctx.rng
            for c in obj.components:
                if rng.random() < 0.7:
                    c.blob = bytes((x ^ 0x3C) for x in c.blob) if rng.random() < 0.5 else c.blob + rng.randbytes(rng.choice((1, 16)))
                    c.actual_len = len(c.blob)
                if rng.random() < 0.5 and len(c.description) < 6 and sum(2 + len(v) for v in c.description.values()) <= 190:
                    # ... and the tag list (same number of components, another directory size): a tag added, dropped or resized
                    r_ = rng.random()
                    if r_ < 0.4 or not c.description:
                        c.description[0x70 + len(c.description)] = rng.randbytes(rng.choice((0, 1, 5)))
                    elif r_ < 0.7:
                        t_ = rng.choice([t for t in c.description if t != 0xC2] or [None])
                        if t_ is not None:
                            del c.description[t_]
                    else:
                        t_ = rng.choice([t for t in c.description if t != 0xC2] or [None])
                        if t_ is not None:
                            c.description[t_] = bytes(c.description[t_]) + b"\x01\x02"
                    ctx.bin("second_export_after_tag_list_changed_in_place")
            ctx.bin("second_export_after_in_place_mutation")
            obj.to_binary(offset, key)
            buf = io.StringIO()
            obj.write_file(buf, key)
    except Exception as e:
        ctx.exc(e)
        if any(len(c.desc_bytes()) > 210 for c in case.comps):
            ctx.note("writer_refused_oversize_description")
        else:
            ctx.violation("writer_raises_on_object_in_domain", {"exc": fmt_exc(e)}, rp)


def run_bec2(ns, ctx, mon, case, key, specs, scratch, idx):
    B = ns.bec2file
    rp = {"kind": "bec2", "case": case.to_json(), "key": key.hex(), "blocks": GB.spec_json(specs)}
    mon.current_replay = rp
    ctx.ev()
    ctx.bin("bec2")
    ctx.bin("blocks_" + "+".join(s["kind"] for s in specs))
    ctx.distinct("bec2", case.digest_parts(), key, GB.spec_json(specs))
    note_bins(ctx, case)
    f = B.Bec2File(G.build_real(ns, case), GB.real_auth_blocks(ns, specs), key)
    encs = GB.write_encryptors(ns, specs)
    mon.last_bec2 = None
    try:
        if idx % 2:
            out = f.to_binary(encs)
        else:
            buf = io.StringIO()
            f.write_file(buf, encs)
            ctx.bin("text_stream")
    except Exception as e:
        if any(len(c.desc_bytes()) > 210 for c in case.comps):
            ctx.note("writer_refused_oversize_description")
        else:
            ctx.violation("writer_raises_on_object_in_domain", {"exc": fmt_exc(e)}, rp)
        return
    if mon.last_bec2 is None:
        return  # the hook already reported why
    blocks, pos = mon.last_bec2
    for s, (tag, value) in zip(specs, blocks):
        if tag != GB.TAGS[s["kind"]]:
            ctx.violation("layout:bec2_header:block_tag", {"got": tag, "kind": s["kind"]}, rp)
            continue
        try:
            k, attrs = GB.open_block_with_model(s, value)
        except (container.FrameError, ecies.EciesError, Exception) as e:
            ctx.violation("layout:auth_block_not_opened_by_independent_model:" + s["kind"], {"err": fmt_exc(e) if not isinstance(e, (container.FrameError, ecies.EciesError)) else str(e)}, rp)
            continue
        ctx.bin("block_%s_opened" % s["kind"])
        if s["kind"] == "cust" and s["ck"] is not None:
            ctx.bin("customer_key_in_slot")
        if k != key:
            ctx.violation("layout:auth_block_wraps_other_key:" + s["kind"], {"got": k, "expected": key}, rp)
        if s["kind"] == "update" and attrs["version"] != s["version"]:
            ctx.violation("layout:update_block_version", {"got": attrs["version"], "expected": s["version"]}, rp)
        if s["kind"] == "ecc" and attrs["sel"] != s["sel"]:
            ctx.violation("layout:ecc_block_selector", {"got": attrs["sel"], "expected": s["sel"]}, rp)


def run_shard(spec, ctx):
    ns = load()
    rng = ctx.rng
    scratch = tempfile.mkdtemp(prefix="c03-", dir=os.environ.get("VERIF_SCRATCH"))
    mon = LayoutMonitor(ns, ctx)
    try:
        kind = spec["kind"]
        if kind == "appnotes":
            cwd = os.getcwd()
            os.chdir(scratch)
            try:
                for script in ("create_bf3file.py", "create_bec2file_with_cust_key.py", "create_bec2file_with_ec_key.py", "verify_dh_secret.py"):
                    mon.current_replay = {"kind": "appnote", "script": script}
                    ctx.ev()
                    ctx.distinct("appnote", script)
                    with contextlib.redirect_stdout(io.StringIO()):
                        try:
                            runpy.run_path(os.path.join(REPO, "appnotes", script), run_name="__main__")
                        except Exception as e:
                            ctx.note("appnote_%s_raises_%s" % (script, type(e).__name__))
                    ctx.bin("appnote_scripts")
            finally:
                os.chdir(cwd)
            ctx.sample({"kind": "appnote", "scripts": 4})
            return
        if kind == "bf3":
            for i in range(spec["n"]):
                case = gen_case_c03(rng)
                key = G.gen_key(rng)
                if i % 3 == 2:
                    off = rng.randrange(0, 1 << 16) if rng.random() < 0.8 else rng.randrange(1 << 16, 1 << 24)
                    ctx.bin("offset_random")
                else:
                    off = OFFSETS[i % len(OFFSETS)]
                    ctx.bin("offset_%d" % off)
                run_bf3(ns, ctx, mon, case, key, off, scratch, i, dup=(i % 5 == 3))
                if i == 2:
                    # session-key encrypted payloads longer than any internal slice size a writer might use
                    for ln in ((8192 + 16, 16400) if ctx.tier == "quick" else (8192, 8192 + 16, 16400, 3 * 8192 + 5, 65536 + 32)):
                        big = G.Case([], [MComp([(0xC2, b"\x02"), (1, b"\x07")], rng.randbytes(ln), ln, True), MComp([(1, b"\x01")], b"tail", None, False)])
                        ctx.bin("encrypted_payload_over_8k")
                        run_bf3(ns, ctx, mon, big, key, 0, scratch, 5)
                    # files whose binary is longer than 16 KiB / 32 KiB / 64 KiB, written as TEXT (stream and path): the hex text is
                    # one run of 80-column lines from the first byte to the last
                    for n_, ln in enumerate((16384 - 60, 16400, 40000) if ctx.tier == "quick" else (16384 - 60, 16384, 16400, 32768 + 7, 40000, 70000)):
                        bigtext = G.Case([("FirmwareId", "1100")], [MComp([(1, b"\x01")], rng.randbytes(ln), None, False), MComp([(1, b"\x02")], b"tail", None, False)])
                        ctx.bin("text_of_a_binary_longer_than_16k")
                        run_bf3(ns, ctx, mon, bigtext, key, 0, scratch, 6 + n_ % 2 * 7)
                if i == 1 and spec.get("many"):
                    # more than 255 components: the entry MAC IV is the full 16-byte big-endian (1+index)
                    many = G.Case([], [MComp([(1, bytes([j % 256]))], bytes([j % 251 + 1]) * (1 + j % 3), None, False) for j in range(258)])
                    ctx.bin("more_than_255_components")
                    run_bf3(ns, ctx, mon, many, key, 5, scratch, 3)
                    # a directory of more than 64 KiB (size field and addresses beyond 2^16)
                    huge = G.Case([], [MComp([(2, bytes([j % 256, j // 256]))], bytes([1 + j % 200]), None, False) for j in range(1400)])
                    ctx.bin("directory_larger_than_64k")
                    run_bf3(ns, ctx, mon, huge, key, 0, scratch, 3)
                    # BEC2 framing without any auth block: signature, 00 00, body
                    f0 = ns.bec2file.Bec2File(G.build_real(ns, G.gen_case(rng, ncomp=2)), (), key)
                    ctx.bin("bec2_without_auth_blocks")
                    mon.current_replay = {"kind": "bec2_no_blocks"}
                    f0.to_binary()
                    f0.write_file(io.StringIO())
                if i == 0:
                    ctx.sample({"kind": "bf3", "offset": off, "key": key, "case": case.to_json()})
            return
        if kind == "threads":
            # several threads exporting at the same time - their own objects, or ONE shared object with different keys / offsets -
            # interleaved at every source line of the writer code; the layout hooks judge every output against the model of the
            # object and arguments of that call
            from ..sched import yieldrun

            BFm, Bm = ns.bf3file, ns.bec2file
            codes = yieldrun.code_objects_of(BFm, BFm.Bf3File, BFm.Bf3Component, Bm.Bec2File, Bm.AesEncryptorMixin, Bm.SoftwareCustKeyEncryptor, Bm.InitCustKeyAuthBlock, Bm.UpdateAuthBlock, Bm.AuthBlock, ns.plugin.AES128Proxy, ns.aes.AESModeOfOperationCBC)
            codes += [c_ for c_ in yieldrun.code_objects_of_module(ns.bf3file, ns.bec2file, ns.crypto, ns.plugin) if c_ not in codes]  # module-level helpers and every class of these modules
            total = 0
            for rnd in range(spec["rounds"]):
                nthreads = (2, 3)[rnd % 2]
                shared = rnd % 2 == 1
                cases = [gen_case_c03(rng) for _ in range(nthreads)]
                for c_ in cases:
                    c_.comps = c_.comps[:3]
                keys = [G.gen_key(rng) if rng.random() < 0.7 else rng.randbytes(16) for _ in range(nthreads)]
                if rnd % 4 >= 2:
                    keys = [keys[0]] * nthreads  # all threads under one session key
                offs = [rng.choice(OFFSETS) for _ in range(nthreads)]
                objs = [G.build_real(ns, cases[0 if shared else i]) for i in range(nthreads)]
                if shared:
                    objs = [objs[0]] * nthreads
                bspecs = GB.gen_blocks(rng, rng.choice((("cust",), ("update",), ("cust", "update"))))

                def body(i):
                    def run():
                        objs[i].to_binary(offs[i], keys[i])
                        buf = io.StringIO()
                        if i % 2:
                            Bm.Bec2File(objs[i], GB.real_auth_blocks(ns, bspecs), keys[i]).write_file(buf, GB.write_encryptors(ns, bspecs))
                        else:
                            objs[i].write_file(buf, keys[i])
                        return len(buf.getvalue())
                    return run

                mon.current_replay = {"kind": "threads", "shared_object": shared}
                res, y = yieldrun.run_concurrently([body(i) for i in range(nthreads)], codes, sleep=0.0001, max_yields=25000)
                total += y
                ctx.ev(nthreads)
                ctx.bin("exports_by_concurrent_threads")
                if shared:
                    ctx.bin("one_object_exported_by_concurrent_threads")
                ctx.distinct("threads", rnd, [c_.digest_parts() for c_ in cases], keys, offs)
                for r in res:
                    if r is not None and r[0] == "exc" and not any(len(c.desc_bytes()) > 210 for c_ in cases for c in c_.comps):
                        ctx.violation("writer_raises_on_object_in_domain", {"exc": r[1], "concurrent": True}, {"kind": "threads"})
            ctx.mon("line_yields_injected", total)
            ctx.sample({"kind": "threads", "rounds": spec["rounds"], "line_yields": total})
            return
        if kind == "histories":
            # object states reached through operation histories (set_config, derive, insert, write+read back ...):
            # the history runner of C11 is driven with the layout hooks installed; only the hooks judge here
            from . import c11
            from ..ctx import ShardCtx

            for i in range(spec["n"]):
                seq = tuple(rng.choice(c11.ALPHA_FULL) for _ in range(rng.randrange(4, 18))) + (("writecheck",),)
                sink = ShardCtx("C11", ctx.tier, ctx.seed, "sink")
                mon.current_replay = {"kind": "history", "seq": [list(o) for o in seq]}
                ctx.ev()
                ctx.bin("histories_under_layout_hooks")
                ctx.distinct("history", seq)
                try:
                    c11.run_sequence(ns, sink, seq)
                except Exception as e:
                    ctx.note("history_runner_raised_" + type(e).__name__)
            ctx.sample({"kind": "history", "seq": [list(o) for o in seq]})
            return
        if kind == "bec2":
            lists = GB.all_block_lists()
            for i in range(spec["n"]):
                kinds = lists[(i * NSH + spec["i"]) % len(lists)]
                specs = GB.gen_blocks(rng, kinds)
                case = gen_case_c03(rng)
                case.comps = case.comps[:3]
                key = G.gen_key(rng)
                if key == bytes(16) and rng.random() < 0.5:
                    key = rng.randbytes(16)
                run_bec2(ns, ctx, mon, case, key, specs, scratch, i)
                if i == 0:
                    ctx.sample({"kind": "bec2", "blocks": GB.spec_json(specs), "key": key})
            return
    finally:
        mon.remove()
        shutil.rmtree(scratch, ignore_errors=True)


def replay(rec, ctx):
    ns = load()
    scratch = tempfile.mkdtemp(prefix="c03-")
    mon = LayoutMonitor(ns, ctx)
    try:
        if rec["kind"] == "bf3":
            for idx in (0, 1, 2):
                run_bf3(ns, ctx, mon, G.Case.from_json(rec["case"]), bytes.fromhex(rec["key"]), rec["offset"], scratch, idx)
        elif rec["kind"] == "bec2":
            for idx in (0, 1):
                run_bec2(ns, ctx, mon, G.Case.from_json(rec["case"]), bytes.fromhex(rec["key"]), GB.spec_from_json(rec["blocks"]), scratch, idx)
        else:
            run_shard({"kind": "appnotes"}, ctx)
    finally:
        mon.remove()
        shutil.rmtree(scratch, ignore_errors=True)
