"""C13 - BF2 import preserves firmware bytes and rejects what BF3 cannot represent.

Oracle: bvm.refs.bf2 - the generator's ground truth (the image the data lines were
cut from) for the payload, pinned specification data for the tags, an expression
evaluator for the platform-filter comment."""
import io
import itertools

from ..ctx import fmt_exc
from ..load import load
from ..refs import bf2 as R

ID = "C13"
LEVEL = "exploration"
RULE = (
    "case = BF2 text generated from a grammar with known ground truth: header comments (release/debug Firmware, Creator, Bf3Update present/absent), 1..5 sections "
    "over every mapped tag type and the two ignored ones, images of 1..200000 bytes cut into lines of 1..250 bytes, page crossings, instruction lines restated per "
    "section; rejection cases: gap at first/middle/LAST line, overlap, non-zero start, unknown and known-but-unmapped tag types, missing BF3 marker; memory-image "
    "extents through bf2_convert_payload / bf2_unpack_payload directly. distinct = digest of the BF2 text; non-trivial = every case"
)
ASSUMPTIONS = [
    "every section starts with CHECK_FWVER and restates SELECT / SELECT_IF, so that nothing depends on how long an instruction stays in force (not defined by the statement)",
    "tag rules are pinned specification data (see bvm/refs/bf2.py); the payload oracle is independent",
    "'rejected' = any exception from bf2_import",
    "ignored sections carry no CRC / REBOOT; loader sections always name an interface; peripheral sections use one-entry or special-case filters",
]
TIMEOUT = {"quick": 900, "thorough": 8 * 3600}
OPTIMIZED_SHARDS = ("imp00",)  # these shards also run under python -O
NSH = 16
REJECT_CLASSES = ["zero_length_line_then_gap", "gap_first", "gap_middle", "gap_before_last_line", "overlap", "nonzero_start", "unknown_tagtype", "page_tagtype_without_base", "no_bf3_marker", "no_bf3_marker_and_no_section_converted", "unknown_tagtype_line_inside_ignored_section", "unknown_tagtype_as_continuation_group", "unknown_tagtype_line_inside_group"]


def plan(tier, seed):
    q = tier == "quick"
    jobs = [{"name": "imp%02d" % i, "spec": {"kind": "import", "n": 600 if q else 20000, "i": i}} for i in range(NSH)]
    jobs += [{"name": "mem%02d" % i, "spec": {"kind": "mem", "n": 600 if q else 40000}} for i in range(4)]
    return jobs


def mandatory_bins(tier):
    b = ["tagtype_%02x" % t for t in R.TAGTYPES] + ["ignored_%02x" % t for t in R.IGNORED]
    b += ["fmt_blob", "fmt_bf2compatible", "fmt_memoryimage", "page_crossing", "group_per_page", "one_group_all_pages", "markers_page_start_only", "markers_extra_start", "markers_no_start", "debug_firmware", "release_firmware", "no_firmware_comment",
          "multi_group_filter", "special_case_filter", "crc", "reboot", "versiondesc", "line_checksum_byte", "enforce_off_without_marker", "filter_comment_checked", "five_sections", "image_ge_64k", "source_is_a_file_name", "stream_positioned_after_other_content", "zero_length_data_line_inside_data", "instruction_separator_tab", "instruction_separator_several_blanks", "last_page_of_a_tag_type_range", "crc_value_without_leading_zeros_or_lower_case", "firmware_name_with_blanks_or_short", "two_images_of_one_tag_type_without_instructions_between", "instruction_hex_values_not_in_upper_case_single_blank_form"]
    b += ["reject:" + c for c in REJECT_CLASSES] + ["mem_gap_before_last_line", "mem_many_extents"]
    return b


def gen_filter(rng, typ, ctx):
    if typ == R.TYPE_PERIPHERAL:
        if rng.random() < 0.3:
            ctx.bin("special_case_filter")
            return bytes.fromhex(rng.choice(list(R.SPECIAL_FILTERS)).replace(" ", ""))
        hid = rng.choice((0x9B, 0xBE, 0xAD, 0xC0, 0x1234, 0x00B6))
        return bytes((1, 1)) + hid.to_bytes(2, "big")
    ngroups = rng.choice((1, 1, 2, 3))
    ents = []
    for g in range(ngroups):
        k = rng.choice((1, 1, 2, 3))
        for j in range(k):
            hid = rng.choice((0x0B, 0x0C, 0x0E, 0x32, 0x9B, 0xBE, 0x2001, 0x3FFF, 0x01))
            e = hid | (0x4000 if rng.random() < 0.3 else 0) | (0x8000 if j < k - 1 else 0)
            ents.append(e)
    if ngroups > 1 or len(ents) > 1:
        ctx.bin("multi_group_filter")
    return bytes((1, len(ents))) + b"".join(e.to_bytes(2, "big") for e in ents)


def gen_section(rng, ctx, base, big=False):
    typ, hwcid, fmt, intf, pages = R.TAGTYPES[base]
    r = rng.random()
    if big and pages >= 2:
        n = rng.choice((65536, 65537, 70000, 131072 + 5)) if rng.random() < 0.7 else rng.randrange(65000, min(pages * 65536, 200000))
        n = min(n, pages * 65536)
    elif r < 0.3:
        n = rng.randrange(1, 40)
    else:
        n = rng.randrange(1, 3000)
    image = rng.randbytes(n)
    if fmt == R.FMT_BLOB:
        lines = R.cut_image(rng, image)
    else:
        # BF2-compatible: raw lines, addresses may jump
        lines = R.cut_image(rng, image)
        if rng.random() < 0.3 and len(lines) > 2:
            k = rng.randrange(1, len(lines))
            lines = lines[:k] + [((a + 0x100) & 0xFFFFF if (a + 0x100) >> 16 < pages else a, p) for a, p in lines[k:]]
            lines = [(a, p) for a, p in lines if (a & 0xFFFF) + len(p) <= 0x10000]
    if any((a >> 16) for a, _ in lines):
        ctx.bin("page_crossing")
    if n >= 65536:
        ctx.bin("image_ge_64k")
    proto = None
    if typ == R.TYPE_LOADER:
        proto = rng.choice(list(R.INTF))
    elif rng.random() < 0.4:
        proto = rng.choice(list(R.INTF) + ["*"])
    vd = None
    if rng.random() < 0.5:
        ln = rng.randrange(0, 9)
        body = rng.randbytes(ln)
        if typ == R.TYPE_PERIPHERAL:
            # module versions of BGM parts are text: keep them printable ASCII (rendering of other bytes is not stated)
            body = bytes(rng.choice(b"0123456789.vV-") for _ in range(ln))
        vd = rng.randbytes(2) + bytes((ln,)) + body + rng.randbytes(rng.randrange(0, 3))
        ctx.bin("versiondesc")
    crc = rng.getrandbits(32) if rng.random() < 0.4 else None
    if crc is not None:
        ctx.bin("crc")
    reboot = rng.random() < 0.4
    if reboot:
        ctx.bin("reboot")
    gpp = rng.random() < 0.5
    if any((a >> 16) for a, _ in lines):
        ctx.bin("group_per_page" if gpp else "one_group_all_pages")
    cks = rng.random() < 0.3
    if cks:
        ctx.bin("line_checksum_byte")
    if rng.random() < 0.25 and len(lines) >= 2:
        # zero-length data lines inside contiguous data (they describe no byte; the image is the same)
        k = rng.randrange(1, len(lines))
        lines = lines[:k] + [(lines[k][0], b"")] + lines[k:]
        ctx.bin("zero_length_data_line_inside_data")
    sec = R.Section(base, lines, gen_filter(rng, typ, ctx), proto, vd, crc, reboot, gpp, cks)
    if crc is not None and rng.random() < 0.4:
        # the checksum value written without leading zeros / in lower case: it is a NUMBER, the tag is its 4-byte big-endian form
        sec.crc_format = rng.choice(("0x%X", "0x%x", "0x%08x", "0X%X"))
        if rng.random() < 0.5:
            sec.crc = crc = rng.choice((0x12ABCD, 0x2ABCD, 0xFF, 0x0, 0x1000000, rng.getrandbits(rng.randrange(1, 29))))
        ctx.bin("crc_value_without_leading_zeros_or_lower_case")
    if rng.random() < 0.2:
        # start / end marker lines placed other than as one FE..FF pair per group: the data lines are the same, so is the component
        sec.marker_style = rng.choice(("page_start_only", "extra_start", "no_start"))
        if sec.marker_style != "page_start_only" or any((a >> 16) != (lines[0][0] >> 16) for a, _ in lines):
            ctx.bin("markers_" + sec.marker_style)
    if rng.random() < 0.25:
        # the hex values of the instruction lines written in another of the forms the hex reader accepts (lower case, no blanks,
        # dashes, colons, double blanks): the same bytes
        sec.hex_style = rng.choice(("lower", "nospace", "dashes", "double_space", "colons_lower"))
        ctx.bin("instruction_hex_values_not_in_upper_case_single_blank_form")
    r = rng.random()
    if r < 0.3:
        sec.sep = rng.choice(("\t", "  ", " \t", "\t\t ", "   "))
        ctx.bin("instruction_separator_tab" if "\t" in sec.sep else "instruction_separator_several_blanks")
    return sec


def gen_ignored(rng, base):
    lines = R.cut_image(rng, rng.randbytes(rng.randrange(1, 60)))
    return R.Section(base, lines, None, None, None, None, False)


def render_file(rng, ctx, header, sections):
    out = []
    counter = [rng.choice((rng.randrange(0, 100), 0xFFF0, 0xFFFE, 0xFF00 + rng.randrange(256)))]  # the 16-bit line index may wrap
    if header.get("Firmware"):
        fwid, ver = header["Firmware"]
        out.append("##Firmware: " + R.firmware_comment(fwid, header.get("FirmwareName", "ID-engine"), ver))
    if header.get("Creator"):
        out.append("##Creator: " + header["Creator"])
    if header.get("Bf3Update"):
        out.append("##Bf3Update: " + header["Bf3Update"])
    for s in sections:
        if s.filt is None and s.base in R.IGNORED:
            # ignored section: only a header instruction and data
            s2 = s
            out.append("#>CHECK_FWVER VERSIONDESC=*")
            lines = s2.render(counter)
            out += [l for l in lines if l.startswith(":")]
        else:
            out += s.render(counter)
    text = "\n".join(out) + "\n"
    r = rng.random()
    if r < 0.12:
        text = text.replace("\n", "\r\n")
        ctx.bin("bf2_text_with_crlf_line_ends")
    elif r < 0.24:
        # hex of the data / marker lines in lower case
        text = "\n".join((l.lower() if l.startswith(":") else l) for l in text.split("\n"))
        ctx.bin("bf2_data_lines_in_lower_case_hex")
    elif r < 0.32:
        text = "\n".join((l + "  " if l.startswith(":") else l) for l in text.split("\n"))
        ctx.bin("bf2_data_lines_with_trailing_blanks")
    return text


def expected_file(header, sections):
    comps = []
    for s in sections:
        if s.base in R.IGNORED:
            continue
        comps.append(R.expected_component(s, header))
    comps.sort(key=lambda c: c[0][R.TAG_TYPE])
    comments = {}
    if header.get("Firmware"):
        comments["FirmwareId"] = "%04d" % header["Firmware"][0]
        comments["FirmwareVersion"] = header["Firmware"][1]
    if header.get("Creator"):
        comments["Creator"] = header["Creator"] + " + bf2-to-bf3-converter"
    if header.get("Bf3Update"):
        comments["Bf3Update"] = header["Bf3Update"]
    return comps, comments


def check_annotation(ns, ctx, idx, comment, desc, rp):
    typ = desc[R.TAG_TYPE][0]
    if typ == R.TYPE_MAIN:
        ok = comment.startswith("Main Firmware")
    elif typ == R.TYPE_LOADER:
        ok = (R.INTF_NAMES[desc[R.TAG_INTF][0]] + " Loader Firmware") in comment
    else:
        hid = int.from_bytes(desc[R.TAG_HWCID], "big")
        name = ns.hwcids.REV_HWCID_MAP.get(hid)
        ok = ("Firmware" in comment) and (name is None or comment.startswith(name + " Firmware"))
    if not ok:
        ctx.violation("component_comment_does_not_name_the_kind", {"component": idx, "comment": comment, "type": typ}, rp)
        return
    filt = desc.get(R.TAG_PFID2)
    if filt is not None:
        groups, dangling = R.filter_semantics(filt)
        if dangling:
            return
        marker = "[PFID2-Filter: "
        if marker not in comment or not comment.rstrip().endswith("]"):
            ctx.violation("component_comment_lacks_filter_expression", {"comment": comment}, rp)
            return
        expr = comment[comment.index(marker) + len(marker) : comment.rstrip().rindex("]")]
        ids = sorted({h for g in groups for _, h in g})
        ctx.bin("filter_comment_checked")
        ctx.mon("filter_expression_evaluated")
        for mask in range(1 << len(ids)):
            present = {h for i, h in enumerate(ids) if mask >> i & 1}
            try:
                got = R.eval_expr(expr, ns.hwcids.HWCID_MAP, present)
            except R.ExprError as e:
                ctx.violation("filter_expression_not_parsable", {"expr": expr, "err": str(e)}, rp)
                return
            if got != R.eval_filter(groups, present):
                ctx.violation("filter_expression_not_equivalent_to_filter_bytes", {"expr": expr, "filter": filt, "assignment": sorted(present)}, rp)
                return


def import_case(ns, ctx, text, header, sections, rp, enforce=True, must_reject=None):
    BF = ns.bf3file
    ctx.ev()
    ctx.distinct(text, enforce)
    src = io.StringIO(text)
    path = None
    if len(text) % 8 == 3:
        # the BF2 file given by NAME instead of as an open stream
        import os
        import tempfile

        fd, path = tempfile.mkstemp(prefix="c13-", suffix=".bf2", dir=os.environ.get("VERIF_SCRATCH"))
        with os.fdopen(fd, "w", newline="") as fh:
            fh.write(text)
        src = path
        ctx.bin("source_is_a_file_name")
    elif len(text) % 8 == 5:
        src = io.StringIO()
        src.write("##Firmware: 9999 earlier content of the same stream\n:0000FE00\n")
        start = src.tell()
        src.write(text)
        src.seek(start)
        ctx.bin("stream_positioned_after_other_content")
    try:
        try:
            res = BF.Bf3File.bf2_import(src, enforce) if not enforce or ctx.rng.random() < 0.5 else BF.Bf3File.bf2_import(src)
        finally:
            if path:
                os.unlink(path)
        ctx.mon("bf2_import")
    except Exception as e:
        ctx.exc(e)
        ctx.mon("bf2_import")
        if must_reject is None:
            ctx.violation("well_formed_bf2_rejected", {"exc": fmt_exc(e)}, rp)
        return
    if must_reject is not None:
        ctx.violation("converted_instead_of_rejected:" + must_reject, {"components": len(res.components), "payload_lens": [len(c.blob) for c in res.components]}, rp)
        return
    comps, comments = expected_file(header, sections)
    if len(res.components) != len(comps):
        ctx.violation("component_count", {"got": len(res.components), "expected": len(comps)}, rp)
        return
    for i, (rc, (desc, payload)) in enumerate(zip(res.components, comps)):
        if bytes(rc.blob) != payload:
            fmt = desc[R.TAG_FMT][0]
            what = "blob_is_not_the_image" if fmt == R.FMT_BLOB else "payload_is_not_the_concatenated_raw_lines"
            ctx.violation(what, {"component": i, "got_len": len(rc.blob), "expected_len": len(payload), "first_diff": next((k for k in range(min(len(rc.blob), len(payload))) if rc.blob[k] != payload[k]), None)}, rp)
            return
        if rc.actual_len != len(payload) or rc.encrypt_by_session_key:
            ctx.violation("declared_length_or_flag", {"component": i}, rp)
            return
        if dict(rc.description) != desc:
            keys = sorted(k for k in set(rc.description) | set(desc) if rc.description.get(k) != desc.get(k))
            ctx.violation("tags_differ_from_bf2_instructions:tag_%02X" % keys[0], {"component": i, "got": {k: rc.description.get(k) for k in keys}, "expected": {k: desc.get(k) for k in keys}}, rp)
            return
    got_comments = dict(res.comments)
    for i, (desc, payload) in enumerate(comps):
        k = "Component%d" % i
        if k not in got_comments:
            ctx.violation("component_comment_missing", {"component": i}, rp)
            return
        check_annotation(ns, ctx, i, got_comments.pop(k), desc, rp)
    extra = {k: v for k, v in got_comments.items() if not k.startswith("Component")}
    if extra != comments:
        ctx.violation("file_comments_differ", {"got": extra, "expected": comments}, rp)


def gen_header(rng, ctx, marker=True):
    h = {}
    r = rng.random()
    if r < 0.45:
        h["Firmware"] = (rng.choice((1100, 1053, 7, 9999)), "%d.%02d.%02d" % (rng.randrange(10), rng.randrange(100), rng.randrange(100)))
        ctx.bin("release_firmware")
    elif r < 0.7:
        h["Firmware"] = (rng.choice((1100, 1053)), "D-%05d" % rng.randrange(100000))
        ctx.bin("debug_firmware")
    else:
        ctx.bin("no_firmware_comment")
    if "Firmware" in h and rng.random() < 0.4:
        # the 9-column name field may hold blanks (fixed columns, not words)
        h["FirmwareName"] = rng.choice(("READER 2", "ID ENG Z", "A B C D E", "X", "nine chrs", "  lead"))
        ctx.bin("firmware_name_with_blanks_or_short")
    if rng.random() < 0.6:
        h["Creator"] = rng.choice(("FirmwareBuilder 1.2", "x", "make bf2"))
    if marker:
        h["Bf3Update"] = rng.choice(("1", "yes", "supported"))
    return h


def run_import(ns, ctx, spec):
    rng = ctx.rng
    bases = list(R.TAGTYPES)
    for j in range(spec["n"]):
        idx = spec["i"] + NSH * j
        mode = idx % 4
        nsec = (1, 2, 3, 5, 1, 2)[idx % 6]
        if nsec == 5:
            ctx.bin("five_sections")
        header = gen_header(rng, ctx)
        big = idx % 41 == 7
        secs = []
        for k in range(nsec):
            base = bases[(idx + k * 3) % len(bases)]
            if rng.random() < 0.15:
                ib = R.IGNORED[(idx + k) % 2]
                secs.append(gen_ignored(rng, ib))
                ctx.bin("ignored_%02x" % ib)
            s = gen_section(rng, ctx, base, big and k == 0)
            if idx % 53 == 11 and k == 0:
                # data in the LAST 64 KiB page the tag type owns (highest tag type value of its range)
                pages = R.TAGTYPES[base][4]
                if R.TAGTYPES[base][2] == R.FMT_BLOB:
                    if pages <= 4:
                        img = rng.randbytes(pages * 65536 - rng.choice((0, 1, 5)))
                        s.lines = R.cut_image(rng, img)
                        ctx.bin("last_page_of_a_tag_type_range")
                else:
                    s.lines = list(s.lines)[:3] + [(((pages - 1) << 16) | 0xFFE0, rng.randbytes(32)), (((pages - 1) << 16) | 0x0010, rng.randbytes(7))]
                    s.lines = [(a, p_) for a, p_ in s.lines if (a >> 16) < pages]
                    ctx.bin("last_page_of_a_tag_type_range")
            secs.append(s)
            if idx % 9 == 4 and k == nsec - 1 and all((a >> 16) == 0 for a, _ in s.lines):
                # a second image of the SAME tag type right after the first, no instruction line in between (two firmware images for
                # the same filter): two components; the first one carries no reboot / checksum / version instruction, so that
                # nothing but the restart of the tag type separates the two
                s.reboot = False
                s.crc = None
                s.versiondesc = None
                img = rng.randbytes(rng.randrange(1, 900))
                lines2 = R.cut_image(rng, img)
                s2 = R.Section(base, lines2, s.filt, s.protocol, None, None, False, False, s.checksum)
                s2.bare = True
                secs.append(s2)
                ctx.bin("two_images_of_one_tag_type_without_instructions_between")
            ctx.bin("tagtype_%02x" % base)
            ctx.bin("fmt_blob" if R.TAGTYPES[base][2] == R.FMT_BLOB else "fmt_bf2compatible")
        if mode in (0, 1, 2):
            text = render_file(rng, ctx, header, secs)
            rp = {"kind": "import", "text": text if len(text) < 20000 else None, "idx": idx}
            import_case(ns, ctx, text, header, secs, rp)
            if j == 0:
                ctx.sample({"bf2_text_head": text[:400], "sections": [hex(s.base) for s in secs]})
            if idx % 12 == 0:
                h2 = dict(header)
                h2.pop("Bf3Update")
                t2 = render_file(rng, ctx, h2, secs)
                ctx.bin("enforce_off_without_marker")
                import_case(ns, ctx, t2, h2, secs, {"kind": "import", "text": t2 if len(t2) < 20000 else None, "enforce": False}, enforce=False)
            continue
        # ---- rejection cases ---------------------------------------------------------------------
        cls = REJECT_CLASSES[(idx // 4) % len(REJECT_CLASSES)]
        blob_bases = [b for b in bases if R.TAGTYPES[b][2] == R.FMT_BLOB]
        if cls in ("zero_length_line_then_gap", "gap_first", "gap_middle", "gap_before_last_line", "overlap", "nonzero_start"):
            base = blob_bases[idx % len(blob_bases)]
            s = gen_section(rng, ctx, base)
            while len(s.lines) < 4:
                s = gen_section(rng, ctx, base)
            L = s.lines
            if cls == "zero_length_line_then_gap":
                # an empty data line at address 0, the data itself starting later (or only in page 1)
                d = rng.choice((1, 0x40, 0x100, 0x10000)) if R.TAGTYPES[base][4] >= 2 else rng.choice((1, 0x40, 0x100))
                s.lines = [(0, b"")] + [(a + d, p) for a, p in L if ((a + d) & 0xFFFF) + len(p) <= 0x10000 and (a + d) >> 16 < R.TAGTYPES[base][4]]
                if len(s.lines) < 2:
                    continue
            elif cls == "nonzero_start":
                d = rng.choice((1, 16, 0x100))
                s.lines = [(a + d, p) for a, p in L if ((a + d) & 0xFFFF) + len(p) <= 0x10000]
            else:
                k = {"gap_first": 1, "gap_middle": len(L) // 2, "gap_before_last_line": len(L) - 1}.get(cls, rng.randrange(1, len(L)))
                d = rng.choice((1, 2, 16)) if cls != "overlap" else -min(rng.choice((1, 2)), len(L[k - 1][1]))
                s.lines = L[:k] + [(a + d, p) for a, p in L[k:]]
                s.lines = [(a, p) for a, p in s.lines if (a & 0xFFFF) + len(p) <= 0x10000 and a >= 0]
                if R.is_contiguous_from_zero(s.lines):
                    continue
            secs = secs[:1] + [s] if idx % 2 else [s] + secs[:1]
        elif cls == "unknown_tagtype":
            s = gen_section(rng, ctx, bases[idx % len(bases)])
            s.base = R.UNKNOWN_TAGTYPES[idx % len(R.UNKNOWN_TAGTYPES)]
            s.lines = [(a & 0xFFFF, p) for a, p in s.lines][:5]
            secs = [s] + secs[:1]
        elif cls == "page_tagtype_without_base":
            s = gen_section(rng, ctx, 0x35)
            s.base = rng.choice((0x36, 0x3A, 0x41, 0x71, 0x85))
            s.lines = [(a & 0xFFFF, p) for a, p in s.lines][:5]
            secs = [s]
        elif cls in ("unknown_tagtype_as_continuation_group", "unknown_tagtype_line_inside_group"):
            # a valid section, then data lines whose tag type lies just outside the section's known range
            base = bases[idx % len(bases)]
            s = gen_section(rng, ctx, base)
            pages = R.TAGTYPES[base][4]
            stray = {0x35: 0x33, 0x39: 0x3F, 0x3D: 0x3F, 0x40: 0x49, 0x70: 0x74, 0x83: 0x82, 0x84: 0xA4}[base] if idx % 3 else rng.choice(R.UNKNOWN_TAGTYPES)
            text_sec = s.render([rng.randrange(100)])
            end = max(i for i, l in enumerate(text_sec) if l.startswith(":") and l[5:7].upper() == "FF")
            bad_line = R.data_line(77, stray, (len(s.lines) * 7) & 0xFFFF, rng.randbytes(rng.randrange(1, 20)))[0]
            if cls == "unknown_tagtype_line_inside_group":
                text_sec = text_sec[:end] + [bad_line] + text_sec[end:]
            else:
                text_sec = text_sec[: end + 1] + [R.marker_line(78, 0xFE), bad_line, R.marker_line(79, 0xFF)] + text_sec[end + 1 :]
            hdr_lines = []
            if header.get("Firmware"):
                hdr_lines.append("##Firmware: " + R.firmware_comment(header["Firmware"][0], "ID-engine", header["Firmware"][1]))
            hdr_lines.append("##Bf3Update: 1")
            text = "\n".join(hdr_lines + text_sec) + "\n"
            ctx.bin("reject:" + cls)
            rp = {"kind": "reject", "text": text if len(text) < 20000 else None, "class": cls}
            import_case(ns, ctx, text, header, [s], rp, must_reject=cls)
            continue
        elif cls == "unknown_tagtype_line_inside_ignored_section":
            # an ignored prepare / activate section is skipped, not exempt: a data line of an unknown tag type inside it is still an
            # unknown tag type
            ign = gen_ignored(rng, R.IGNORED[idx % 2])
            while len(ign.lines) < 2:
                ign = gen_ignored(rng, R.IGNORED[idx % 2])
            good = gen_section(rng, ctx, bases[idx % len(bases)])
            t_ign = ign.render([rng.randrange(100)])
            end = max(i for i, l in enumerate(t_ign) if l.startswith(":") and l[5:7].upper() == "FF")
            first_data = min(i for i, l in enumerate(t_ign) if l.startswith(":") and l[5:7].upper() not in ("FE", "FF"))
            bad_line = R.data_line(77, rng.choice(R.UNKNOWN_TAGTYPES), 0x10, rng.randbytes(rng.randrange(1, 20)))[0]
            at = end if idx % 4 < 2 else first_data + 1
            t_ign = t_ign[:at] + [bad_line] + t_ign[at:]
            hdr_lines = []
            if header.get("Firmware"):
                hdr_lines.append("##Firmware: " + R.firmware_comment(header["Firmware"][0], "ID-engine", header["Firmware"][1]))
            hdr_lines.append("##Bf3Update: 1")
            parts = (t_ign + good.render([rng.randrange(100)])) if idx % 8 < 4 else (good.render([rng.randrange(100)]) + t_ign)
            text = "\n".join(hdr_lines + parts) + "\n"
            ctx.bin("reject:" + cls)
            rp = {"kind": "reject", "text": text if len(text) < 20000 else None, "class": cls}
            import_case(ns, ctx, text, header, [good], rp, must_reject=cls)
            continue
        elif cls == "no_bf3_marker":
            header.pop("Bf3Update")
        elif cls == "no_bf3_marker_and_no_section_converted":
            # a file without the BF3-update marker in which NO section gets as far as being converted: only ignored prepare /
            # activate sections (and the first variant nothing else at all): still legacy firmware without the marker
            header.pop("Bf3Update")
            secs = [gen_ignored(rng, R.IGNORED[(idx + k) % 2]) for k in range(1 + idx % 3)]
        ctx.bin("reject:" + cls)
        text = render_file(rng, ctx, header, secs)
        rp = {"kind": "reject", "text": text if len(text) < 20000 else None, "class": cls}
        import_case(ns, ctx, text, header, secs, rp, must_reject=cls)


def run_mem(ns, ctx, spec):
    BF = ns.bf3file
    rng = ctx.rng
    for j in range(spec["n"]):
        # extents with gaps at every kind of position, lines in file order (ascending addresses)
        next_adr = rng.choice((0, 0, 5, 0x100))
        lines = []
        nlines = rng.randrange(1, 30)
        gap_positions = set()
        for k in range(nlines):
            if k and rng.random() < 0.35:
                next_adr += rng.randrange(1, 50)
                gap_positions.add(k)
            ln = rng.randrange(1, 60)
            if (next_adr & 0xFFFF) + ln > 0x10000:
                ln = 0x10000 - (next_adr & 0xFFFF)
            lines.append((next_adr, rng.randbytes(ln)))
            next_adr += ln
        if j % 4 == 1 and nlines >= 2:
            # an empty data line that opens a block of its own (other address than what follows)
            k = rng.randrange(0, len(lines))
            a0 = lines[k][0]
            if a0 >= 0x20 and (k == 0 or lines[k - 1][0] + len(lines[k - 1][1]) <= a0 - 0x10):
                lines.insert(k, (a0 - 0x10, b""))
                ctx.bin("mem_empty_line_opening_a_block")
        if j % 5 == 0 and nlines >= 2:
            # force: a gap exactly before the last line
            a, p = lines[-1]
            if (nlines - 1) not in gap_positions:
                lines[-1] = (a + 7, p) if ((a + 7) & 0xFFFF) + len(p) <= 0x10000 else (a, p)
            ctx.bin("mem_gap_before_last_line")
        base = 0x84
        real_lines = []
        for i, (a, p) in enumerate(lines):
            _, raw = R.data_line(i, base + (a >> 16), a & 0xFFFF, p)
            real_lines.append(BF.Bf2BinLine(raw[2], int.from_bytes(raw[:2], "big"), raw[4 : 4 + raw[3]], raw))
        ext = R.extents_of(lines)
        if len(ext) >= 3:
            ctx.bin("mem_many_extents")
        ctx.ev()
        ctx.bin("fmt_memoryimage")
        ctx.distinct("mem", lines)
        rp = {"kind": "mem", "lines": [[a, p.hex()] for a, p in lines]}
        try:
            blocks = BF.Bf3File.bf2_unpack_payload(real_lines)
            content = BF.Bf3File.bf2_convert_payload(real_lines, BF.BF3FMT.MEMORYIMAGE)
            ctx.mon("bf2_convert_payload")
        except Exception as e:
            ctx.violation("memory_image_conversion_raises", {"exc": fmt_exc(e)}, rp)
            continue
        if dict(blocks) != dict(ext):
            lost = sum(len(p) for _, p in lines) - sum(len(v) for v in blocks.values())
            ctx.violation("unpacked_extents_differ_from_data_lines" + (":bytes_lost" if lost > 0 else ""), {"bytes_lost": lost, "extents_expected": len(ext), "extents_got": len(blocks)}, rp)
            continue
        want = b"".join(a.to_bytes(4, "big") + len(d).to_bytes(4, "big") + d for a, d in sorted(ext))
        if content != want:
            ctx.violation("memory_image_content_differs_from_extent_list", {"got_len": len(content), "expected_len": len(want)}, rp)
        if j == 0:
            ctx.sample({"kind": "mem", "extents": [(a, len(d)) for a, d in ext]})


def run_shard(spec, ctx):
    ns = load(plugin=False)
    if spec["kind"] == "import":
        run_import(ns, ctx, spec)
    else:
        run_mem(ns, ctx, spec)


def replay(rec, ctx):
    ns = load(plugin=False)
    if rec.get("kind") == "mem":
        run_mem(ns, ctx, {"n": 100})
    elif rec.get("kind") == "reject" and rec.get("text"):
        ctx.ev()
        try:
            r = ns.bf3file.Bf3File.bf2_import(io.StringIO(rec["text"]))
            ctx.violation("converted_instead_of_rejected:" + rec.get("class", "?"), {"components": len(r.components)}, rec)
        except Exception:
            pass
    else:
        run_import(ns, ctx, {"n": 60, "i": rec.get("idx", 0) % NSH})
