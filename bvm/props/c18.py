"""C18 - signatures verify, reject tampering, interoperate and follow RFC 6979.

Oracles: OpenSSL ECDSA on raw digests (verify + sign), an RFC 6979 model written from
the RFC (anchored to its appendix vectors) with OpenSSL for k*G, exhaustive single-bit
tampering of message and encoded signature."""
import hashlib

from ..ctx import fmt_exc
from ..load import load, weierstrass_curves
from ..refs import ossl
from ..refs import rfc6979 as RFC

ID = "C18"
LEVEL = "exploration"
RULE = (
    "case = (curve of the 17 short-Weierstrass ones, hash SHA-1/224/256/384/512, encoding string/strings/DER with and without canonisation, key incl. scalars 1 and n-1, "
    "message). Per case: library signature verified by the library and by OpenSSL (strict DER), OpenSSL signature verified by the library, sign_deterministic compared with "
    "the RFC 6979 model; EVERY single-bit change of a 16-byte message and of the encoded signature must fail with BadSignatureError, as must another key; forged r,s in "
    "{0, n, n+1, 2^k >= n, n-1 with wrong value} and truncated / extended / re-tagged encodings must raise only the documented errors. distinct = digest of the case; "
    "non-trivial = every case"
)
ASSUMPTIONS = [
    "OpenSSL gets the raw digest (ECDSA_do_sign/verify), so hash choice and truncation are decided independently of OpenSSL's own hashing",
    "documented errors: BadSignatureError from verify*, MalformedSignature / UnexpectedDER from the decoders",
    "EdDSA / Edwards curves excluded (quantifier)",
]
TIMEOUT = {"quick": 1500, "thorough": 10 * 3600}
OPTIMIZED_SHARDS = ("c06_0",)  # these shards also run under python -O
HASHES = ["sha1", "sha224", "sha256", "sha384", "sha512"]
ENCODINGS = ["string", "strings", "der", "string_canonize", "strings_canonize", "der_canonize"]


def plan(tier, seed):
    jobs = []
    for ci in range(17):
        parts = 1 if tier == "quick" else 4
        for p in range(parts):
            jobs.append({"name": "c%02d_%d" % (ci, p), "spec": {"curve": ci, "part": p, "parts": parts}})
    # the first keys and signatures of a process made by several threads at once on ONE curve (fresh process per shard; staggered
    # starts): nothing has multiplied the curve's generator before the threads start
    for i in range(4 if tier == "quick" else 34):
        jobs.append({"name": "firstuse%02d" % i, "spec": {"kind": "firstuse", "i": i, "curve": (2, 13, 5, 0, 9, 16)[i % 6] if tier == "quick" else i % 17}})
    return jobs


def mandatory_bins(tier):
    return _mandatory_bins(tier) + ["first_keys_and_signatures_of_the_process_made_by_concurrent_threads"]


def _mandatory_bins(tier):
    b = ["hash_" + h for h in HASHES] + ["enc_" + e for e in ENCODINGS]
    b += ["digest_longer_than_order", "key_scalar_1", "key_scalar_n-1", "lib_sig_verified_by_openssl", "openssl_sig_verified_by_lib", "rfc6979_compared", "message_bit_flips", "signature_bit_flips",
          "other_key", "forged_r_0", "forged_s_0", "forged_r_n", "forged_s_n", "forged_r_n_plus_1", "forged_2^k", "malformed_truncated", "malformed_extended", "malformed_retagged", "der_long_form_length", "high_s_and_low_s", "verifying_key_with_precomputed_tables", "rfc6979_with_additional_data", "rfc6979_with_additional_data_and_rejected_first_candidate", "malformed_strings_components_resplit", "key_loaded_with_hashfunc_argument", "digest_equal_to_the_order_or_next_to_it", "hash_of_the_call_differs_from_the_keys_default"]
    return b


def der_int(v):
    b = v.to_bytes((v.bit_length() + 8) // 8 or 1, "big")
    return b"\x02" + der_len(len(b)) + b


def der_len(n):
    if n < 0x80:
        return bytes((n,))
    b = n.to_bytes((n.bit_length() + 7) // 8, "big")
    return bytes((0x80 | len(b),)) + b


def der_sig(r, s):
    body = der_int(r) + der_int(s)
    return b"\x30" + der_len(len(body)) + body


def enc_funcs(ns, name):
    u = ns.util
    return {
        "string": (u.sigencode_string, u.sigdecode_string),
        "strings": (u.sigencode_strings, u.sigdecode_strings),
        "der": (u.sigencode_der, u.sigdecode_der),
        "string_canonize": (u.sigencode_string_canonize, u.sigdecode_string),
        "strings_canonize": (u.sigencode_strings_canonize, u.sigdecode_strings),
        "der_canonize": (u.sigencode_der_canonize, u.sigdecode_der),
    }[name]


def my_encode(name, r, s, n):
    L = (n.bit_length() + 7) // 8
    if name.startswith("der"):
        return der_sig(r, s)
    if name.startswith("strings"):
        return (r.to_bytes(L, "big"), s.to_bytes(L, "big"))
    return r.to_bytes(L, "big") + s.to_bytes(L, "big")


def run_firstuse(ns, ctx, spec):
    from ..refs import rfc6979 as R6
    from ..sched import yieldrun

    K = ns.keys
    EC = ns.ellipticcurve
    rng = ctx.rng
    i = spec["i"]
    cv = weierstrass_curves(ns)[spec["curve"]]
    name = cv.openssl_name
    n = int(cv.order)
    nthreads = (2, 3, 4, 6)[i % 4]
    hf = hashlib.sha256
    ds = [rng.randrange(1, n) for _ in range(nthreads)]
    msgs = [rng.randbytes(20) for _ in range(nthreads)]
    codes = [getattr(EC.PointJacobi, f).__code__ for f in ("_maybe_precompute", "__mul__", "_mul_precompute", "scale") if hasattr(EC.PointJacobi, f)]
    codes += yieldrun.code_objects_of(K.SigningKey)

    def body(t):
        def run():
            sk = K.SigningKey.from_secret_exponent(ds[t], curve=cv, hashfunc=hf)
            sig = sk.sign_deterministic(msgs[t], hashfunc=hf)
            pt = sk.verifying_key.pubkey.point
            return (int(pt.x()), int(pt.y())), sig
        return run

    res, y = yieldrun.run_concurrently([body(t) for t in range(nthreads)], codes, sleep=0.0002, max_yields=5000, timeout=200, stagger=(0.0, 0.004, 0.015, 0.04, 0.1)[i % 5])
    ctx.bin("first_keys_and_signatures_of_the_process_made_by_concurrent_threads")
    ctx.mon("line_yields_injected", y)

    def judge(t, r, how):
        ctx.ev()
        ctx.distinct("firstuse", cv.name, ds[t], msgs[t], how)
        rp = {"kind": "firstuse", "i": i, "curve_index": spec["curve"]}
        if r[0] == "exc":
            ctx.violation("key_or_signature_raises:" + how, {"curve": cv.name, "exc": r[1][:200], "threads": nthreads}, rp)
            return
        pub, sig = r[1]
        ctx.mon("sign_deterministic")
        if pub != ossl.point_mul(name, ds[t]):
            ctx.violation("public_key_differs_from_openssl:" + how, {"curve": cv.name, "threads": nthreads}, rp)
            return
        digest = hf(msgs[t]).digest()
        er, es, _ = R6.sign(n, ds[t], digest, hf, lambda k: ossl.point_mul(name, k)[0])
        L = (n.bit_length() + 7) // 8
        ctx.mon("oracle:rfc6979_model")
        if sig != er.to_bytes(L, "big") + es.to_bytes(L, "big"):
            ctx.violation("deterministic_signature_differs_from_rfc6979:" + how, {"curve": cv.name, "threads": nthreads}, rp)

    for t, r in enumerate(res):
        if r is None:
            ctx.note("thread_still_running_after_timeout(inconclusive)")
            continue
        judge(t, r, "first_use_by_concurrent_threads")
    for t in range(nthreads):
        try:
            r = ("ok", body(t)())
        except Exception as e:
            r = ("exc", repr(e))
        judge(t, r, "after_first_use_by_concurrent_threads")


def run_shard(spec, ctx):
    ns = load()
    if spec.get("kind") == "firstuse":
        run_firstuse(ns, ctx, spec)
        return
    K = ns.keys
    rng = ctx.rng
    quick = ctx.tier == "quick"
    cv = weierstrass_curves(ns)[spec["curve"]]
    name = cv.openssl_name
    n = int(cv.order)
    bits = n.bit_length()
    big = bits > 300
    Bad = K.BadSignatureError
    nkeys = 3 if quick else 12
    rp0 = {"curve": cv.name}
    for ki in range(nkeys):
        if ki % spec["parts"] != spec["part"] and not quick:
            continue
        d = (1, n - 1)[ki] if ki < 2 else rng.randrange(1, n)
        if ki < 2:
            ctx.bin("key_scalar_1" if ki == 0 else "key_scalar_n-1")
        pub = ossl.point_mul(name, d)
        other_d = rng.randrange(2, n - 1)
        for hi, hname in enumerate(HASHES):
            if quick and (hi + ki + spec["curve"]) % 2 and hname not in ("sha256",) and not (hname == "sha512" and ki == 0):
                continue
            hf = getattr(hashlib, hname)
            ctx.bin("hash_" + hname)
            if hf().digest_size * 8 > bits:
                ctx.bin("digest_longer_than_order")
            sk = K.SigningKey.from_secret_exponent(d, curve=cv, hashfunc=hf)
            vk = sk.verifying_key
            vk_other = K.SigningKey.from_secret_exponent(other_d, curve=cv, hashfunc=hf).verifying_key
            if (ki + hi) % 2:
                # the same key with (lazily) precomputed multiplication tables must behave identically
                vk = K.SigningKey.from_secret_exponent(d, curve=cv, hashfunc=hf).verifying_key
                vk.precompute(lazy=bool(ki % 2))
                ctx.bin("verifying_key_with_precomputed_tables")
                if hi == 1 and ki < 3:
                    # observation only (precompute() is not part of the property): a key loaded with from_string carries a
                    # point without order, and precompute() on it makes the next verify fail with AssertionError
                    try:
                        v2 = K.VerifyingKey.from_string(vk.to_string(), curve=cv, hashfunc=hf)
                        v2.precompute(lazy=True)
                        v2.verify(sk.sign(b"x", hashfunc=hf), b"x", hashfunc=hf)
                        ctx.note("precompute_on_key_loaded_from_string_works")
                    except Exception as e:
                        ctx.note("precompute_on_key_loaded_from_string_fails_with_" + type(e).__name__)
            # digests whose leading bits are exactly the group order, one less, one more (the reduction step of RFC 6979)
            if hi == 0 or hname == "sha256":
                nb = (bits + 7) // 8
                for delta in (0, -1, 1):
                    dg = ((n + delta) << (8 * nb - bits)).to_bytes(nb, "big") if bits % 8 else (n + delta).to_bytes(nb, "big")
                    ctx.ev()
                    ctx.bin("digest_equal_to_the_order_or_next_to_it")
                    try:
                        sg = sk.sign_digest_deterministic(dg, hashfunc=hf, sigencode=ns.util.sigencode_string, allow_truncate=True)
                        er_, es_, _ = RFC.sign(n, d, dg, hf, lambda k: ossl.point_mul(name, k)[0])
                        if tuple(ns.util.sigdecode_string(sg, n)) != (er_, es_):
                            ctx.violation("deterministic_signature_differs_from_rfc6979:digest_bits_equal_order%+d" % delta, {"hash": hname, "curve": cv.name}, dict(rp0, d=hex(d), hash=hname, digest=dg.hex()))
                        elif vk.verify_digest(sg, dg, sigdecode=ns.util.sigdecode_string, allow_truncate=True) is not True:
                            ctx.violation("library_rejects_its_own_signature:deterministic", {"digest": "order%+d" % delta}, dict(rp0, d=hex(d), hash=hname, digest=dg.hex()))
                    except Exception as e:
                        ctx.violation("sign_raises", {"exc": fmt_exc(e), "digest": "order%+d" % delta}, dict(rp0, d=hex(d), hash=hname, digest=dg.hex()))
            # the hash named in the CALL differs from the key's own default hash: message digest AND the RFC 6979 nonce derivation
            # both use the hash of the call
            other_hf = hashlib.sha1 if hname != "sha1" else hashlib.sha384
            try:
                sk_o = K.SigningKey.from_secret_exponent(d, curve=cv, hashfunc=other_hf)
                m_o = rng.randbytes(12)
                s_o = sk_o.sign_deterministic(m_o, hashfunc=hf, sigencode=ns.util.sigencode_string)
                er_, es_, _ = RFC.sign(n, d, hf(m_o).digest(), hf, lambda k: ossl.point_mul(name, k)[0])
                ctx.ev()
                ctx.bin("hash_of_the_call_differs_from_the_keys_default")
                if tuple(ns.util.sigdecode_string(s_o, n)) != (er_, es_):
                    ctx.violation("deterministic_signature_differs_from_rfc6979:hash_of_the_call_differs_from_the_keys_default", {"hash": hname, "key_default": other_hf().name}, dict(rp0, d=hex(d), hash=hname, msg=m_o.hex()))
                elif sk_o.verifying_key.verify(s_o, m_o, hashfunc=hf) is not True:
                    ctx.violation("library_rejects_its_own_signature:deterministic", {"hash": hname}, dict(rp0, d=hex(d), hash=hname, msg=m_o.hex()))
            except Exception as e:
                ctx.violation("sign_raises", {"exc": fmt_exc(e), "hash_of_call_differs": True}, dict(rp0, d=hex(d), hash=hname))
            msg = rng.randbytes(16)
            digest = hf(msg).digest()
            # keys loaded from DER / PEM / string with a hashfunc argument: that hash is the default of the key (and of the public
            # key derived from it) for every call that does not name one
            if ki < 2:
                loaders = (("sk_der", lambda: K.SigningKey.from_der(sk.to_der(), hashfunc=hf)), ("sk_pem", lambda: K.SigningKey.from_pem(sk.to_pem(), hashfunc=hf)),
                           ("sk_pkcs8", lambda: K.SigningKey.from_der(sk.to_der(format="pkcs8"), hashfunc=hf)), ("sk_string", lambda: K.SigningKey.from_string(sk.to_string(), curve=cv, hashfunc=hf)))
                for lname, ld in loaders[(hi + ki) % 2 :: 2]:
                    ctx.ev()
                    ctx.bin("key_loaded_with_hashfunc_argument")
                    try:
                        sk2 = ld()
                        s_def = sk2.sign(msg)
                        s_det = sk2.sign_deterministic(msg)
                        vk_l = K.VerifyingKey.from_der(vk.to_der(), hashfunc=hf)
                        ok1 = vk_l.verify(s_def, msg) and sk2.verifying_key.verify(s_def, msg) and vk.verify(s_def, msg, hashfunc=hf)
                        r_, s_ = ns.util.sigdecode_string(s_def, n)
                        ok2 = ossl.ecdsa_verify(name, pub, digest, r_, s_)
                        er_, es_, _ = RFC.sign(n, d, digest, hf, lambda k: ossl.point_mul(name, k)[0])
                        if not (ok1 is True and ok2):
                            ctx.violation("signature_of_loaded_key_not_made_with_its_hashfunc_argument", {"loader": lname, "hash": hname}, dict(rp0, d=hex(d), hash=hname, loader=lname))
                        elif tuple(ns.util.sigdecode_string(s_det, n)) != (er_, es_):
                            ctx.violation("deterministic_signature_differs_from_rfc6979:key_loaded_with_hashfunc_argument", {"loader": lname, "hash": hname}, dict(rp0, d=hex(d), hash=hname, loader=lname))
                    except Exception as e:
                        ctx.violation("signature_of_loaded_key_not_made_with_its_hashfunc_argument", {"loader": lname, "hash": hname, "exc": fmt_exc(e)}, dict(rp0, d=hex(d), hash=hname, loader=lname))
            for ei, ename in enumerate(ENCODINGS):
                if quick and (ei + hi + ki) % 3 and not (ki == 2 and hname == "sha256"):
                    continue
                sigenc, sigdec = enc_funcs(ns, ename)
                ctx.bin("enc_" + ename)
                ctx.ev()
                ctx.distinct(cv.name, d, hname, ename, msg)
                rp = dict(rp0, d=hex(d), hash=hname, enc=ename, msg=msg.hex())
                # ---- library signs (random nonce and deterministic) -------------------------------------------
                try:
                    sig = sk.sign(msg, hashfunc=hf, sigencode=sigenc)
                    sig_det = sk.sign_deterministic(msg, hashfunc=hf, sigencode=sigenc)
                    ctx.mon("sign", 2)
                except Exception as e:
                    ctx.violation("sign_raises", {"exc": fmt_exc(e)}, rp)
                    continue
                for which, sg in (("random_nonce", sig), ("deterministic", sig_det)):
                    try:
                        ok = vk.verify(sg, msg, hashfunc=hf, sigdecode=sigdec)
                        ctx.mon("verify")
                    except Exception as e:
                        ok = False
                        ctx.violation("library_rejects_its_own_signature:" + which, {"exc": fmt_exc(e), "enc": ename}, rp)
                        continue
                    if ok is not True:
                        ctx.violation("library_rejects_its_own_signature:" + which, {"returned": ok}, rp)
                    r, s = sigdec(sg, n)
                    if my_encode(ename, r, s, n) != sg and not (ename.startswith("strings") and tuple(sg) == my_encode(ename, r, s, n)):
                        ctx.violation("signature_encoding_differs_from_standard_form", {"enc": ename, "got": sg if not isinstance(sg, tuple) else list(sg), "expected": my_encode(ename, r, s, n)}, rp)
                    if "canonize" in ename and s > n // 2:
                        ctx.violation("canonised_signature_has_high_s", {"enc": ename}, rp)
                    ctx.bin("lib_sig_verified_by_openssl")
                    ctx.mon("openssl_verify")
                    if not ossl.ecdsa_verify(name, pub, digest, r, s):
                        ctx.violation("openssl_rejects_library_signature:" + which, {"hash": hname, "r": r, "s": s}, rp)
                    if ename.startswith("der") and not ossl.ecdsa_verify_der(name, pub, digest, sg):
                        ctx.violation("openssl_rejects_library_der_encoding", {"sig": sg}, rp)
                # ---- RFC 6979 --------------------------------------------------------------------------------------
                er, es, ek = RFC.sign(n, d, digest, hf, lambda k: ossl.point_mul(name, k)[0])
                if "canonize" in ename and es > n // 2:
                    es = n - es
                gr, gs = sigdec(sig_det, n)
                ctx.bin("rfc6979_compared")
                ctx.mon("rfc6979_model")
                if (gr, gs) != (er, es):
                    ctx.violation("deterministic_signature_differs_from_rfc6979", {"hash": hname, "got": (gr, gs), "expected": (er, es)}, rp)
                # ---- RFC 6979 section 3.6: additional data k' (extra_entropy); in particular when the first candidate is rejected,
                # where the retry step must NOT mix k' in again
                if ename == "string":
                    extra = rng.randbytes(rng.choice((1, 8, 32)))
                    m2 = msg
                    st = {}
                    for t in range(40):
                        st = {}
                        m2 = msg + bytes((t,))
                        RFC.first_nonce_stats(n, d, hf(m2).digest(), hf, extra, st)
                        if st.get("rejected"):
                            break
                    dg2 = hf(m2).digest()
                    xr, xs, _ = RFC.sign(n, d, dg2, hf, lambda k: ossl.point_mul(name, k)[0], extra)
                    ctx.bin("rfc6979_with_additional_data")
                    if st.get("rejected"):
                        ctx.bin("rfc6979_with_additional_data_and_rejected_first_candidate")
                    try:
                        gx = sigdec(sk.sign_deterministic(m2, hashfunc=hf, sigencode=sigenc, extra_entropy=extra), n)
                        if tuple(gx) != (xr, xs):
                            ctx.violation("deterministic_signature_with_additional_data_differs_from_rfc6979" + (":after_rejected_candidate" if st.get("rejected") else ""), {"hash": hname, "got": gx, "expected": (xr, xs)}, dict(rp, msg=m2.hex(), extra=extra.hex()))
                    except Exception as e:
                        ctx.violation("sign_raises", {"exc": fmt_exc(e), "extra_entropy": True}, rp)
                # ---- OpenSSL signs, library verifies (both s and n-s are valid signatures) -----------------------------------
                orr, os_ = ossl.ecdsa_sign(name, d, digest)
                for ss in (os_, n - os_):
                    osig = my_encode(ename, orr, ss, n)
                    ctx.bin("openssl_sig_verified_by_lib")
                    try:
                        if vk.verify_digest(osig, digest, sigdecode=sigdec, allow_truncate=True) is not True:
                            raise AssertionError("returned not True")
                        ctx.mon("verify")
                    except Exception as e:
                        ctx.violation("library_rejects_openssl_signature", {"exc": fmt_exc(e), "hash": hname, "enc": ename, "high_s": ss > n // 2}, rp)
                ctx.bin("high_s_and_low_s")
                # ---- tampering: every bit of the message, every bit of the encoded signature, another key -------------------
                def must_fail(what, fn, detail):
                    ctx.ev()
                    try:
                        res = fn()
                        ctx.mon("verify")
                        ctx.violation("verification_succeeds_after_tampering:" + what, dict(detail, returned=res), rp)
                    except Bad as e:
                        ctx.mon("verify")
                        ctx.exc(e)
                    except Exception as e:
                        ctx.mon("verify")
                        ctx.violation("verification_fails_with_undocumented_error:" + what, dict(detail, exc=fmt_exc(e)), rp)

                step = 1 if not (quick and big) else 5
                sweep = (ei + hi) % 2 == 0 or not quick
                if sweep:
                    for bit in range(0, 128, step):
                        m2 = bytearray(msg)
                        m2[bit // 8] ^= 1 << (bit % 8)
                        must_fail("message_bit", lambda: vk.verify(sig, bytes(m2), hashfunc=hf, sigdecode=sigdec), {"bit": bit})
                    ctx.bin("message_bit_flips")
                    flat = sig if not isinstance(sig, tuple) else sig[0] + sig[1]
                    sstep = step if len(flat) < 100 or not quick else 3
                    for bit in sorted(set(range(0, len(flat) * 8, sstep)) | (set(range(0, 64)) if ename.startswith("der") else set())):
                        f2 = bytearray(flat)
                        f2[bit // 8] ^= 1 << (bit % 8)
                        s2 = bytes(f2) if not isinstance(sig, tuple) else (bytes(f2[: len(sig[0])]), bytes(f2[len(sig[0]) :]))
                        must_fail("signature_bit", lambda: vk.verify(s2, msg, hashfunc=hf, sigdecode=sigdec), {"bit": bit, "enc": ename})
                    ctx.bin("signature_bit_flips")
                must_fail("other_key", lambda: vk_other.verify(sig, msg, hashfunc=hf, sigdecode=sigdec), {})
                ctx.bin("other_key")
                # ---- forged values -------------------------------------------------------------------------------------------------
                r, s = sigdec(sig, n)
                forged = [("r_0", 0, s), ("s_0", r, 0), ("r_n", n, s), ("s_n", r, n), ("r_n_plus_1", n + 1, s), ("2^k", 1 << bits, s), ("2^k", r, 1 << (bits + 7)), ("r_plus_n", r + n, s), ("s_plus_n", r, s + n)]
                for fname, fr, fs in forged:
                    ctx.bin("forged_" + fname) if fname in ("r_0", "s_0", "r_n", "s_n", "r_n_plus_1", "2^k") else None
                    try:
                        fsig = my_encode(ename, fr, fs, n)
                    except OverflowError:
                        if not ename.startswith("der"):
                            continue
                        raise
                    must_fail("forged_" + fname, lambda: vk.verify(fsig, msg, hashfunc=hf, sigdecode=sigdec), {"enc": ename})
                # ---- malformed encodings: decoders raise only documented errors ----------------------------------------------------------
                MS, UD = ns.util.MalformedSignature, ns.der.UnexpectedDER
                flat = sig if not isinstance(sig, tuple) else None
                variants = []
                if flat is not None:
                    variants += [("truncated", flat[:-1]), ("truncated", flat[:1]), ("truncated", b""), ("extended", flat + b"\x00"), ("extended", flat + flat[:2])]
                    if ename.startswith("der"):
                        variants += [("retagged", b"\x31" + flat[1:]), ("retagged", flat[:2] + b"\x03" + flat[3:]), ("retagged", flat[:1] + bytes((flat[1] + 1,)) + flat[2:]),
                                     ("retagged", b"\x30\x80" + flat[2:] + b"\x00\x00"), ("retagged", flat[:2] + b"\x02\x81" + flat[3:4] + flat[4:])]
                        if flat[1] == 0x81:
                            variants += [("extended", flat[:2] + bytes((flat[2] + 1,)) + flat[3:]), ("truncated", flat[:2] + bytes((flat[2] - 1,)) + flat[3:]), ("extended", flat[:2] + bytes((flat[2] + 1,)) + flat[3:] + b"\x00")]
                            ctx.bin("der_long_form_length")
                else:
                    variants += [("truncated", (sig[0][:-1], sig[1])), ("truncated", (sig[0],)), ("extended", (sig[0], sig[1] + b"\x00")), ("extended", (sig[0], sig[1], sig[1])), ("truncated", (b"", b""))]
                    # component lengths that are each wrong but add up to the right total
                    variants += [("resplit", (sig[0] + sig[1][:1], sig[1][1:])), ("resplit", (sig[0][:-1], sig[0][-1:] + sig[1])), ("resplit", (b"", sig[0] + sig[1])), ("resplit", (sig[0] + sig[1], b""))]
                    ctx.bin("malformed_strings_components_resplit")
                for vname, bad in variants:
                    ctx.bin("malformed_" + vname) if vname in ("truncated", "extended", "retagged") else None
                    ctx.ev()
                    try:
                        sigdec(bad, n)
                        ctx.mon("sigdecode")
                        accepted = True
                    except (MS, UD) as e:
                        ctx.mon("sigdecode")
                        ctx.exc(e)
                        accepted = False
                    except Exception as e:
                        ctx.mon("sigdecode")
                        ctx.violation("decoder_fails_with_undocumented_error:" + vname, {"enc": ename, "exc": fmt_exc(e)}, rp)
                        continue
                    if accepted:
                        ctx.violation("malformed_signature_encoding_accepted:" + vname, {"enc": ename, "sig": bad if not isinstance(bad, tuple) else list(bad)}, rp)
                    must_fail("malformed_" + vname, lambda: vk.verify(bad, msg, hashfunc=hf, sigdecode=sigdec), {"enc": ename})
                if ctx.out_of_time():
                    return
    ctx.sample({"curve": cv.name, "note": "last case", "hash": hname, "enc": ename})


def replay(rec, ctx):
    ns = load()
    if rec.get("kind") == "firstuse":
        run_firstuse(ns, ctx, {"i": rec["i"], "curve": rec["curve_index"]})
        return
    names = [c.name for c in weierstrass_curves(ns)]
    run_shard({"curve": names.index(rec["curve"]), "part": 0, "parts": 1}, ctx)
