"""./check --setup : offline sanity of everything the checks rely on (no build step:
the repository and the framework are pure Python)."""
import sys

sys.dont_write_bytecode = True


def main():
    from .refs import ossl
    from .load import load, REPO

    v = ossl.version()
    assert ossl.aes_ecb(bytes(range(16)), bytes.fromhex("00112233445566778899aabbccddeeff")).hex() == "69c4e0d86a7b0430d8cdb78070b4c55a"
    ns = load()
    print("setup ok: repo=%s openssl=%r python=%s" % (REPO, v, sys.version.split()[0]))
    return 0


if __name__ == "__main__":
    sys.exit(main())
