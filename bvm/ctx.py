"""Per-shard observation context: counters, bins, monitor events, violations.

Everything a property driver observes goes through a ShardCtx so that the
evidence file contains measured numbers only.
"""
import hashlib
import json
import random
import struct
import time
import traceback

MAX_SAMPLES = 6
MAX_VIOL_PER_MECH = 3


def jsonable(o, depth=0):
    """Best-effort conversion to JSON-serialisable data (bytes -> hex)."""
    if depth > 8:
        return repr(o)[:200]
    if o is None or isinstance(o, (bool, int, float, str)):
        if isinstance(o, int) and not isinstance(o, bool) and abs(o) > 2**53:
            return "int:" + hex(o)
        return o
    if isinstance(o, (bytes, bytearray, memoryview)):
        b = bytes(o)
        if len(b) > 600:
            return "hex:" + b[:300].hex() + "...(%d bytes)" % len(b)
        return "hex:" + b.hex()
    if isinstance(o, dict):
        return {str(jsonable(k, depth + 1)): jsonable(v, depth + 1) for k, v in o.items()}
    if isinstance(o, (list, tuple, set, frozenset)):
        return [jsonable(x, depth + 1) for x in o]
    return repr(o)[:300]


def digest(*parts):
    h = hashlib.blake2b(digest_size=8)
    for p in parts:
        if isinstance(p, (bytes, bytearray, memoryview)):
            h.update(b"b")
            h.update(bytes(p))
        else:
            h.update(b"r")
            h.update(repr(p).encode("utf-8", "backslashreplace"))
        h.update(b"\x00")
    return struct.unpack("<Q", h.digest())[0]


class ShardCtx:
    def __init__(self, prop_id, tier, seed, shard_name):
        self.prop_id = prop_id
        self.tier = tier
        self.seed = seed
        self.shard = shard_name
        self.rng = random.Random("%s/%s/%s" % (seed, prop_id, shard_name))
        self.evaluations = 0
        self.bins = {}
        self.monitors = {}
        self.exceptions = {}
        self.samples = []
        self.violations = []
        self.violation_counts = {}
        self.hashes = set()
        self.enum_distinct = 0
        self.notes = {}
        self.extra = {}
        self.t0 = time.time()
        self.deadline = None

    # -- counting ---------------------------------------------------------
    def ev(self, n=1):
        self.evaluations += n

    def counters_snapshot(self):
        """a number that moves whenever the workload makes any progress (used by the stall detector)"""
        return self.evaluations + sum(self.bins.values()) + sum(self.monitors.values()) + len(self.hashes)

    def bin(self, name, n=1):
        self.bins[name] = self.bins.get(name, 0) + n

    def mon(self, name, n=1):
        self.monitors[name] = self.monitors.get(name, 0) + n

    def exc(self, e):
        name = e if isinstance(e, str) else type(e).__name__
        self.exceptions[name] = self.exceptions.get(name, 0) + 1

    def distinct(self, *parts):
        self.hashes.add(digest(*parts))

    def distinct_by_enumeration(self, n):
        """cases that are pairwise distinct by construction (complete enumeration
        of a range owned by this shard) - counted, not hashed"""
        self.enum_distinct += n

    def sample(self, obj):
        if len(self.samples) < MAX_SAMPLES:
            self.samples.append(jsonable(obj))

    def note(self, name, n=1):
        self.notes[name] = self.notes.get(name, 0) + n

    def add_extra(self, name, n):
        self.extra[name] = self.extra.get(name, 0) + n

    def max_extra(self, name, n):
        self.extra[name] = max(self.extra.get(name, 0), n)

    # -- verdicts ---------------------------------------------------------
    def violation(self, mechanism, detail=None, replay=None):
        """mechanism: the oracle's classification of what failed (stable string,
        no random values); detail: witness; replay: data for --replay."""
        c = self.violation_counts.get(mechanism, 0) + 1
        self.violation_counts[mechanism] = c
        if c <= MAX_VIOL_PER_MECH:
            self.violations.append(
                {
                    "mechanism": mechanism,
                    "detail": jsonable(detail),
                    "replay": jsonable(replay),
                    "shard": self.shard,
                }
            )

    def out_of_time(self):
        return self.deadline is not None and time.time() > self.deadline

    def result(self):
        return {
            "shard": self.shard,
            "evaluations": self.evaluations,
            "bins": self.bins,
            "monitors": self.monitors,
            "exceptions": self.exceptions,
            "samples": self.samples,
            "violations": self.violations,
            "violation_counts": self.violation_counts,
            "distinct": len(self.hashes),
            "enum_distinct": self.enum_distinct,
            "notes": self.notes,
            "extra": self.extra,
            "wall_s": round(time.time() - self.t0, 3),
        }


def fmt_exc(e):
    tb = traceback.extract_tb(e.__traceback__)
    where = ""
    if tb:
        fr = tb[-1]
        where = "%s:%s:%s" % (fr.filename.split("/")[-1], fr.name, fr.lineno)
    return "%s(%s) at %s" % (type(e).__name__, str(e)[:120], where)


def raising_site(e):
    """(file basename, function) of the innermost frame - a stable mechanism key
    (no line numbers, so that unrelated edits do not change it)."""
    tb = traceback.extract_tb(e.__traceback__)
    if not tb:
        return "?", "?"
    fr = tb[-1]
    return fr.filename.split("/")[-1], fr.name
