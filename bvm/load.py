"""Import the code under test from $VERIF_REPO (default /repo), never from anywhere else.

"Rebuild" for this pure-Python repository = a fresh interpreter importing the
working-tree sources (no bytecode is written into the repository: -B /
sys.dont_write_bytecode).
"""
import os
import sys

sys.dont_write_bytecode = True

REPO = os.path.realpath(os.environ.get("VERIF_REPO", "/repo"))
GUARD = "BEC2FORMAT_VERIF"


class LoadError(Exception):
    pass


_loaded = {}


def _under_repo(mod):
    f = os.path.realpath(getattr(mod, "__file__", "") or "")
    return f.startswith(REPO + os.sep)


def load(plugin=True):
    """Returns a namespace object with the modules under test."""
    key = bool(plugin)
    if key in _loaded:
        return _loaded[key]
    os.environ[GUARD] = "1"
    for p in (os.path.join(REPO, "appnotes"), REPO):
        if p not in sys.path:
            sys.path.insert(0, p)
    import bec2format
    import bec2format.bec2file
    import bec2format.bf3file
    import bec2format.bytes_reader
    import bec2format.configid
    import bec2format.crypto
    import bec2format.error
    import bec2format.hwcids

    class NS:
        pass

    ns = NS()
    ns.bec2format = bec2format
    ns.bf3file = bec2format.bf3file
    ns.bec2file = bec2format.bec2file
    ns.crypto = bec2format.crypto
    ns.configid = bec2format.configid
    ns.error = bec2format.error
    ns.bytes_reader = bec2format.bytes_reader
    ns.hwcids = bec2format.hwcids
    mods = [bec2format, ns.bf3file, ns.bec2file, ns.crypto, ns.configid, ns.error]
    if plugin:
        import register_crypto_plugin
        from register_crypto_plugin import ecdsa, pyaes
        from register_crypto_plugin.ecdsa import (
            _rwlock,
            curves,
            der,
            ecdh,
            ellipticcurve,
            keys,
            numbertheory,
            rfc6979,
            util,
        )
        from register_crypto_plugin.ecdsa import ecdsa as ecdsa_mod
        from register_crypto_plugin.pyaes import aes, blockfeeder

        ns.plugin = register_crypto_plugin
        ns.ecdsa = ecdsa
        ns.pyaes = pyaes
        ns.aes = aes
        ns.blockfeeder = blockfeeder
        ns.curves = curves
        ns.der = der
        ns.ecdh = ecdh
        ns.ellipticcurve = ellipticcurve
        ns.keys = keys
        ns.numbertheory = numbertheory
        ns.rfc6979 = rfc6979
        ns.util = util
        ns.ecdsa_mod = ecdsa_mod
        ns.rwlock = _rwlock
        mods += [register_crypto_plugin, ecdsa, pyaes, aes, ellipticcurve, keys]
    for m in mods:
        if not _under_repo(m):
            raise LoadError(
                "module %s loaded from %s, not from %s"
                % (m.__name__, getattr(m, "__file__", None), REPO)
            )
    _loaded[key] = ns
    return ns


def weierstrass_curves(ns):
    """The 17 short-Weierstrass curves of the vendored library (Edwards excluded)."""
    return [c for c in ns.curves.curves if c.name not in ("Ed25519", "Ed448")]
