"""Monitors installed on the real code from the harness (no source edits):
wrappers on attributes of the imported modules that record call / return /
exception events and evaluate an invariant where the state becomes observable."""
import functools
import io

from .refs import layout as L


class Recorder:
    """replaces owner.name by a wrapper that logs every call and optionally runs an
    online oracle:  oracle(args, kwargs, result, exception)"""

    def __init__(self, owner, name, ctx, label=None, oracle=None, before=None):
        self.owner = owner
        self.name = name
        self.ctx = ctx
        self.label = label or name
        self.oracle = oracle
        self.before = before
        self.calls = []
        self.raw = owner.__dict__[name] if isinstance(owner, type) else getattr(owner, name)
        self.kind = "static" if isinstance(self.raw, staticmethod) else "class" if isinstance(self.raw, classmethod) else "plain"
        self.func = self.raw.__func__ if self.kind != "plain" else self.raw
        rec = self

        @functools.wraps(self.func)
        def wrapper(*a, **k):
            token = rec.before(a, k) if rec.before else None
            try:
                res = rec.func(*a, **k)
            except BaseException as e:
                rec.ctx.mon(rec.label)
                if rec.oracle:
                    rec.oracle(a, k, None, e, token)
                raise
            rec.ctx.mon(rec.label)
            if rec.oracle:
                rec.oracle(a, k, res, None, token)
            return res

        self.wrapper = wrapper
        if self.kind == "static":
            setattr(owner, name, staticmethod(wrapper))
        elif self.kind == "class":
            setattr(owner, name, classmethod(wrapper))
        else:
            setattr(owner, name, wrapper)

    def remove(self):
        setattr(self.owner, self.name, self.raw)


def model_of_components(components):
    return [L.MComp(list(c.description.items()), bytes(c.blob), c.actual_len, bool(c.encrypt_by_session_key)) for c in components]


class LayoutMonitor:
    """validates every Bf3File.to_binary / Bec2File.to_binary / write_bf3_format call
    against the independent layout model (property C03)."""

    def __init__(self, ns, ctx, tag=""):
        self.ns = ns
        self.ctx = ctx
        self.tag = tag
        self.recs = []
        self.reentry = 0
        BF3 = ns.bf3file.Bf3File
        BEC = ns.bec2file.Bec2File
        self.recs.append(Recorder(BF3, "to_binary", ctx, "hook:Bf3File.to_binary", self._bf3_to_binary, self._snap_bf3))
        self.recs.append(Recorder(BEC, "to_binary", ctx, "hook:Bec2File.to_binary", self._bec2_to_binary, self._snap_bec2))
        self.recs.append(Recorder(BF3, "write_bf3_format", ctx, "hook:write_bf3_format", self._write_fmt, self._snap_write))

    def remove(self):
        for r in reversed(self.recs):
            r.remove()

    def _viol(self, what, detail):
        self.ctx.violation("layout:" + what, detail, getattr(self, "current_replay", None))

    # -- Bf3File.to_binary(self, offset=0, session_key=DEFAULT) -----------------------
    def _snap_bf3(self, a, k):
        return model_of_components(a[0].components)

    def _bf3_to_binary(self, a, k, res, exc, comps):
        if exc is not None:
            return
        offset = a[1] if len(a) > 1 else k.get("offset", 0)
        key = a[2] if len(a) > 2 else k.get("session_key", bytes(16))
        self.check_body(res, comps, offset, key)

    def check_body(self, out, comps, offset, key, what="bf3"):
        ctx = self.ctx
        ctx.mon("oracle:body_vs_model")
        try:
            exp = L.serialise_body(comps, offset, key)
        except Exception as e:  # model cannot serialise what the writer accepted
            self._viol("writer_accepted_what_the_format_cannot_hold", {"err": str(e)})
            return
        if bytes(out) == exp:
            # also run the independent parser over it (model self-consistency + field view)
            try:
                ents = L.parse_body(bytes(out), 0, key, True, base=offset)
                assert len(ents) == len(comps)
            except L.LayoutError as e:
                self._viol("independent_parser_rejects_output:" + e.rule, {"offset": offset})
            return
        # classify the difference through the parser
        try:
            ents = L.parse_body(bytes(out), 0, key, True, base=offset)
        except L.LayoutError as e:
            self._viol(e.rule, {"offset": offset, "len": len(out), "expected_len": len(exp), "err": str(e)})
            return
        what = "bytes_differ_from_model_serialiser"
        if len(ents) != len(comps):
            what = "entry_count"
        else:
            for e, c in zip(ents, comps):
                if e.desc != c.desc:
                    what = "tag_list_order_or_bytes"
                    break
                if e.declared != c.declared:
                    what = "declared_length"
                    break
                if e.payload != c.stored(key):
                    what = "stored_payload" + (":encrypted_component" if c.encrypted else "")
                    break
        self._viol(what, {"offset": offset, "got_head": bytes(out[:64]), "expected_head": exp[:64]})

    # -- Bec2File.to_binary(self, ext_encryptors=()) --------------------------------------
    def _snap_bec2(self, a, k):
        s = a[0]
        return (model_of_components(s.bf3file.components), [(b.tag) for b in s.auth_blocks.values()], bytes(s.session_key))

    def _bec2_to_binary(self, a, k, res, exc, snap):
        if exc is not None:
            return
        comps, tags, key = snap
        ctx = self.ctx
        ctx.mon("oracle:bec2_header")
        try:
            blocks, pos = L.parse_bec2_header(bytes(res))
        except L.LayoutError as e:
            self._viol("bec2_header:" + e.rule, {"head": bytes(res[:40])})
            return
        if [t for t, _ in blocks] != tags:
            self._viol("bec2_header:block_tags_or_order", {"got": [t for t, _ in blocks], "expected": tags})
            return
        self.check_body(bytes(res[pos:]), comps, pos, key, "bec2")
        self.last_bec2 = (blocks, pos)

    # -- write_bf3_format(bf3file, comments, rawdata) ------------------------------------------
    def _snap_write(self, a, k):
        target = a[0]
        if isinstance(target, str):
            return None
        try:
            return target.tell()
        except Exception:
            return None

    def _write_fmt(self, a, k, res, exc, start):
        if exc is not None:
            return
        target, comments, raw = a[0], a[1], a[2]
        ctx = self.ctx
        ctx.mon("oracle:text_envelope")
        if isinstance(target, str):
            with open(target, "rb") as f:
                data = f.read()
            stripped = data.replace(b"\r\n", b"")
            if b"\n" in stripped or b"\r" in stripped:
                self._viol("text:path_file_line_ends_not_all_crlf", {"head": data[:100]})
                return
            text = data.replace(b"\r\n", b"\n").decode("utf-8", "replace")
        elif isinstance(target, io.StringIO) and start is not None:
            text = target.getvalue()[start:]
        else:
            return
        bad = L.check_text(text, list(comments.items()), bytes(raw))
        for b in bad:
            self._viol("text:" + b, {"text_head": text[:200]})


class StepBudgetExceeded(BaseException):
    """raised inside the monitored call when the logical step budget is used up
    (BaseException so that no 'except Exception' of the code under test swallows it)"""


class StepBudget:
    """counts function entries and jumps (sys.monitoring) while a call runs; the count
    is the logical - not wall-clock - evidence of (non-)termination"""

    TOOL = 3

    def __init__(self):
        import sys

        self.mon = sys.monitoring
        self.steps = 0
        self.limit = None
        self.active = False
        self.max_seen = 0
        self.max_ratio = 0.0
        try:
            self.mon.use_tool_id(self.TOOL, "bvm-stepbudget")
        except ValueError:
            pass
        E = self.mon.events
        self.mon.register_callback(self.TOOL, E.PY_START, self._ev2)
        self.mon.register_callback(self.TOOL, E.JUMP, self._ev3)
        self.mon.register_callback(self.TOOL, E.BRANCH, self._ev3)

    def _tick(self):
        self.steps += 1
        if self.limit is not None and self.steps > self.limit and self.active:
            self.active = False
            raise StepBudgetExceeded("more than %d logical steps" % self.limit)

    def _ev2(self, code, off):
        self._tick()

    def _ev3(self, code, off, dst):
        self._tick()

    def run(self, fn, limit, size=1):
        E = self.mon.events
        self.steps = 0
        self.limit = limit
        self.active = True
        self.mon.set_events(self.TOOL, E.PY_START | E.JUMP | E.BRANCH)
        try:
            return fn()
        finally:
            self.active = False
            self.mon.set_events(self.TOOL, 0)
            self.max_seen = max(self.max_seen, self.steps)
            self.max_ratio = max(self.max_ratio, self.steps / max(1, size))

    def close(self):
        self.mon.set_events(self.TOOL, 0)
        try:
            self.mon.free_tool_id(self.TOOL)
        except Exception:
            pass


def global_state(ns):
    """digestable snapshot of library-global state a parser must never change"""
    import hashlib

    def d(o):
        return hashlib.sha256(repr(o).encode("utf-8", "backslashreplace")).hexdigest()[:16]

    c = ns.crypto.__dict__
    snap = {
        "crypto_registry": d([(k, id(c[k])) for k in sorted(c) if k.startswith("__") and not k.endswith("__")]),
        "AUTH_BLOCK_CLS_MAP": d(sorted((k, v.__name__) for k, v in ns.bec2file.Bec2File.AUTH_BLOCK_CLS_MAP.items())),
        "DEFAULT_PUBLIC_KEYS": d(sorted(ns.bec2file.EccEncryptor.DEFAULT_PUBLIC_KEYS.items())),
        "BF2_TAGTYPE_MAP": d(sorted(ns.bf3file.BF2_TAGTYPE_MAP.items())),
        "BF2_INTERFACES": d(sorted(ns.bf3file.BF2_INTERFACES.items())),
        "PFID2_SPECIAL": d(sorted(ns.bf3file.PFID2FILTER_TO_HWCID_SPECIAL_CASES.items())),
        "HWCID_MAP": d(sorted(ns.hwcids.HWCID_MAP.items())),
        "REV_HWCID_MAP": d(sorted(ns.hwcids.REV_HWCID_MAP.items())),
        "MAX_TLVBLOCK_SIZE": ns.bf3file.MAX_TLVBLOCK_SIZE,
        "BF3TAG": d(sorted((k, v) for k, v in vars(ns.bf3file.BF3TAG).items() if not k.startswith("_"))),
        "BF3INTF": d(sorted((k, v) for k, v in vars(ns.bf3file.BF3INTF).items() if not k.startswith("_"))),
    }
    # generic part: every module-level name and every class attribute of the bec2format modules and of the crypto plug-in
    # module (values digested structurally; objects by type) - catches defaults / caches / flags nobody listed above
    import sys
    import types

    def g(o, depth=0):
        if o is None or isinstance(o, (bool, int, float, str)):
            return repr(o)
        if isinstance(o, (bytes, bytearray)):
            return "b:" + bytes(o).hex()
        if isinstance(o, (list, tuple)):
            return "[" + ",".join(g(x, depth + 1) for x in o[:2000]) + "]" if depth < 4 else "seq%d" % len(o)
        if isinstance(o, dict):
            return "{" + ",".join(sorted(g(k, depth + 1) + ":" + g(v, depth + 1) for k, v in list(o.items())[:5000])) + "}" if depth < 4 else "dict%d" % len(o)
        if isinstance(o, (set, frozenset)):
            return "set(" + ",".join(sorted(g(x, depth + 1) for x in o)) + ")"
        if isinstance(o, type):
            return "class:" + o.__module__ + "." + o.__qualname__
        if isinstance(o, (types.FunctionType, types.BuiltinFunctionType, types.MethodType, classmethod, staticmethod, property)):
            return "callable:" + getattr(o, "__qualname__", type(o).__name__)
        if isinstance(o, types.ModuleType):
            return "module:" + o.__name__
        return "obj:" + type(o).__module__ + "." + type(o).__qualname__

    mods = [m for n, m in sorted(sys.modules.items()) if m is not None and (n == "bec2format" or n.startswith("bec2format.") or n == "register_crypto_plugin")]
    for m in mods:
        items = []
        for name, val in sorted(vars(m).items()):
            if name.startswith("__") and name.endswith("__"):
                continue
            items.append(name + "=" + g(val))
            if isinstance(val, type) and val.__module__ == m.__name__:
                for an, av in sorted(vars(val).items()):
                    if not (an.startswith("__") and an.endswith("__")):
                        items.append(name + "." + an + "=" + g(av))
        snap["module:" + m.__name__] = d(items)
    if hasattr(ns, "curves"):
        cs = []
        for cv in ns.curves.curves:
            g = cv.generator
            try:
                cs.append((cv.name, int(g.x()), int(g.y()), int(cv.order)))
            except Exception:
                cs.append((cv.name, "?", int(cv.order)))
        snap["curves"] = d(cs)
        snap["aes_tables"] = d([tuple(getattr(ns.aes.AES, t)) for t in ("S", "Si", "T1", "T5", "U1", "rcon")])
    return snap
