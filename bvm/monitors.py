"""Monitors installed on the real code from the harness (no source edits):
wrappers on attributes of the imported modules that record call / return /
exception events and evaluate an invariant where the state becomes observable."""
import functools
import io

from .refs import layout as L


class Recorder:
    """replaces owner.name by a wrapper that logs every call and optionally runs an
    online oracle:  oracle(args, kwargs, result, exception)"""

    def __init__(self, owner, name, ctx, label=None, oracle=None, before=None):
        self.owner = owner
        self.name = name
        self.ctx = ctx
        self.label = label or name
        self.oracle = oracle
        self.before = before
        self.calls = []
        self.raw = owner.__dict__[name] if isinstance(owner, type) else getattr(owner, name)
        self.kind = "static" if isinstance(self.raw, staticmethod) else "class" if isinstance(self.raw, classmethod) else "plain"
        self.func = self.raw.__func__ if self.kind != "plain" else self.raw
        rec = self

        @functools.wraps(self.func)
        def wrapper(*a, **k):
            token = rec.before(a, k) if rec.before else None
            try:
                res = rec.func(*a, **k)
            except BaseException as e:
                rec.ctx.mon(rec.label)
                if rec.oracle:
                    rec.oracle(a, k, None, e, token)
                raise
            rec.ctx.mon(rec.label)
            if rec.oracle:
                rec.oracle(a, k, res, None, token)
            return res

        self.wrapper = wrapper
        if self.kind == "static":
            setattr(owner, name, staticmethod(wrapper))
        elif self.kind == "class":
            setattr(owner, name, classmethod(wrapper))
        else:
            setattr(owner, name, wrapper)

    def remove(self):
        setattr(self.owner, self.name, self.raw)


def model_of_components(components):
    return [L.MComp(list(c.description.items()), bytes(c.blob), c.actual_len, bool(c.encrypt_by_session_key)) for c in components]


class LayoutMonitor:
    """validates every Bf3File.to_binary / Bec2File.to_binary / write_bf3_format call
    against the independent layout model (property C03)."""

    def __init__(self, ns, ctx, tag=""):
        self.ns = ns
        self.ctx = ctx
        self.tag = tag
        self.recs = []
        self.reentry = 0
        BF3 = ns.bf3file.Bf3File
        BEC = ns.bec2file.Bec2File
        self.recs.append(Recorder(BF3, "to_binary", ctx, "hook:Bf3File.to_binary", self._bf3_to_binary, self._snap_bf3))
        self.recs.append(Recorder(BEC, "to_binary", ctx, "hook:Bec2File.to_binary", self._bec2_to_binary, self._snap_bec2))
        self.recs.append(Recorder(BF3, "write_bf3_format", ctx, "hook:write_bf3_format", self._write_fmt, self._snap_write))

    def remove(self):
        for r in reversed(self.recs):
            r.remove()

    def _viol(self, what, detail):
        self.ctx.violation("layout:" + what, detail, getattr(self, "current_replay", None))

    # -- Bf3File.to_binary(self, offset=0, session_key=DEFAULT) -----------------------
    def _snap_bf3(self, a, k):
        return model_of_components(a[0].components)

    def _bf3_to_binary(self, a, k, res, exc, comps):
        if exc is not None:
            return
        offset = a[1] if len(a) > 1 else k.get("offset", 0)
        key = a[2] if len(a) > 2 else k.get("session_key", bytes(16))
        self.check_body(res, comps, offset, key)

    def check_body(self, out, comps, offset, key, what="bf3"):
        ctx = self.ctx
        ctx.mon("oracle:body_vs_model")
        try:
            exp = L.serialise_body(comps, offset, key)
        except Exception as e:  # model cannot serialise what the writer accepted
            self._viol("writer_accepted_what_the_format_cannot_hold", {"err": str(e)})
            return
        if bytes(out) == exp:
            # also run the independent parser over it (model self-consistency + field view)
            try:
                ents = L.parse_body(bytes(offset) + bytes(out), offset, key, True)
                assert len(ents) == len(comps)
            except L.LayoutError as e:
                self._viol("independent_parser_rejects_output:" + e.rule, {"offset": offset})
            return
        # classify the difference through the parser
        try:
            ents = L.parse_body(bytes(offset) + bytes(out), offset, key, True)
        except L.LayoutError as e:
            self._viol(e.rule, {"offset": offset, "len": len(out), "expected_len": len(exp), "err": str(e)})
            return
        what = "bytes_differ_from_model_serialiser"
        if len(ents) != len(comps):
            what = "entry_count"
        else:
            for e, c in zip(ents, comps):
                if e.desc != c.desc:
                    what = "tag_list_order_or_bytes"
                    break
                if e.declared != c.declared:
                    what = "declared_length"
                    break
                if e.payload != c.stored(key):
                    what = "stored_payload" + (":encrypted_component" if c.encrypted else "")
                    break
        self._viol(what, {"offset": offset, "got_head": bytes(out[:64]), "expected_head": exp[:64]})

    # -- Bec2File.to_binary(self, ext_encryptors=()) --------------------------------------
    def _snap_bec2(self, a, k):
        s = a[0]
        return (model_of_components(s.bf3file.components), [(b.tag) for b in s.auth_blocks.values()], bytes(s.session_key))

    def _bec2_to_binary(self, a, k, res, exc, snap):
        if exc is not None:
            return
        comps, tags, key = snap
        ctx = self.ctx
        ctx.mon("oracle:bec2_header")
        try:
            blocks, pos = L.parse_bec2_header(bytes(res))
        except L.LayoutError as e:
            self._viol("bec2_header:" + e.rule, {"head": bytes(res[:40])})
            return
        if [t for t, _ in blocks] != tags:
            self._viol("bec2_header:block_tags_or_order", {"got": [t for t, _ in blocks], "expected": tags})
            return
        self.check_body(bytes(res[pos:]), comps, pos, key, "bec2")
        self.last_bec2 = (blocks, pos)

    # -- write_bf3_format(bf3file, comments, rawdata) ------------------------------------------
    def _snap_write(self, a, k):
        target = a[0]
        if isinstance(target, str):
            return None
        try:
            return target.tell()
        except Exception:
            return None

    def _write_fmt(self, a, k, res, exc, start):
        if exc is not None:
            return
        target, comments, raw = a[0], a[1], a[2]
        ctx = self.ctx
        ctx.mon("oracle:text_envelope")
        if isinstance(target, str):
            with open(target, "rb") as f:
                data = f.read()
            stripped = data.replace(b"\r\n", b"")
            if b"\n" in stripped or b"\r" in stripped:
                self._viol("text:path_file_line_ends_not_all_crlf", {"head": data[:100]})
                return
            text = data.replace(b"\r\n", b"\n").decode("utf-8", "replace")
        elif isinstance(target, io.StringIO) and start is not None:
            text = target.getvalue()[start:]
        else:
            return
        bad = L.check_text(text, list(comments.items()), bytes(raw))
        for b in bad:
            self._viol("text:" + b, {"text_head": text[:200]})
