"""Controlled scheduler for code that synchronises through threading.Lock.

The module under test gets a fake `threading` namespace whose Lock.acquire /
Lock.release are scheduling points.  Every logical thread is a real thread running the
real code, but only the thread chosen by the scheduler runs; the scheduler (main thread)
waits until every worker is parked at a scheduling point, computes the enabled set
(acquire is enabled iff the lock is free), and picks one according to a choice list.
Depth-first exploration re-executes from scratch with longer and longer choice prefixes
(stateless model checking of the REAL code at lock-operation granularity); optional
'line' points (sys.monitoring LINE events) give finer, randomly sampled schedules.
"""
import threading as real_threading


class Abort(BaseException):
    pass


class Execution:
    def __init__(self, choices=(), rng=None, max_steps=100000, visited=None):
        self.choices = list(choices)
        self.visited = visited
        self.pruned = False
        self.progress = {}
        self.rng = rng
        self.max_steps = max_steps
        self.cv = real_threading.Condition()
        self.pending = {}  # tid -> op tuple | None (running) ; absent when done
        self.done = set()
        self.failed = {}
        self.current = None
        self.abort = False
        self.trace = []  # (chosen index, number enabled)
        self.tid_of = {}
        self.holders = {}  # tid -> 'R' / 'W'
        self.violations = []
        self.max_readers = 0
        self.deadlock = None
        self.locks = []
        self.states = []  # digest of the global state at every scheduling decision
        self.line_points = False

    # ---- called by worker threads -------------------------------------------------------------
    def me(self):
        return self.tid_of.get(real_threading.get_ident())

    def point(self, op):
        tid = self.me()
        if tid is None:
            return  # not a controlled thread (e.g. lock construction in the main thread)
        with self.cv:
            self.pending[tid] = op
            self.progress[tid] = self.progress.get(tid, 0) + 1
            self.current = None
            self.cv.notify_all()
            while self.current != tid:
                if self.abort:
                    raise Abort()
                self.cv.wait()
            self.pending[tid] = None

    def enter(self, role):
        tid = self.me()
        self.holders[tid] = role
        ws = [t for t, r in self.holders.items() if r == "W"]
        rs = [t for t, r in self.holders.items() if r == "R"]
        self.max_readers = max(self.max_readers, len(rs))
        if ws and len(self.holders) > 1:
            self.violations.append(("writer_holds_together_with_another_holder", dict(self.holders)))

    def leave(self):
        self.holders.pop(self.me(), None)

    # ---- fake threading namespace ------------------------------------------------------------------
    def namespace(self):
        ex = self

        class Lock:
            def __init__(self):
                self.owner = None
                self.name = "L%d" % len(ex.locks)
                ex.locks.append(self)

            def acquire(self, blocking=True, timeout=-1):
                ex.point(("acq", self))
                if ex.me() is not None:
                    assert self.owner is None, "scheduler granted a held lock"
                    self.owner = ex.me()
                else:
                    self.owner = "main"
                return True

            def release(self):
                ex.point(("rel", self))
                if self.owner is None:
                    raise RuntimeError("release unlocked lock")
                self.owner = None

            def locked(self):
                return self.owner is not None

            __enter__ = acquire

            def __exit__(self, *a):
                self.release()

        class RLock(Lock):
            """re-entrant lock with an OWNER: only the owning thread may release it (threading.RLock semantics) - a lock
            handed from one thread to another, as the reader-writer lock does with its gate locks, must not be one of these"""

            def __init__(self):
                Lock.__init__(self)
                self.count = 0

            def acquire(self, blocking=True, timeout=-1):
                me = ex.me() if ex.me() is not None else "main"
                if self.owner == me and self.count > 0:
                    self.count += 1
                    return True
                Lock.acquire(self, blocking, timeout)
                self.count = 1
                return True

            def release(self):
                me = ex.me() if ex.me() is not None else "main"
                if self.owner != me or self.count == 0:
                    raise RuntimeError("cannot release un-acquired lock")
                self.count -= 1
                if self.count == 0:
                    Lock.release(self)

            __enter__ = acquire

        class NS:
            pass

        ns = NS()
        ns.Lock = Lock
        ns.RLock = RLock
        ns.get_ident = real_threading.get_ident
        ns.current_thread = real_threading.current_thread
        return ns

    # ---- scheduler ------------------------------------------------------------------------------------
    def run(self, bodies, state_fn=None):
        """bodies: list of callables (one per logical thread). Returns when all are done, deadlocked or aborted."""
        threads = []

        def wrap(tid, fn):
            def body():
                self.tid_of[real_threading.get_ident()] = tid
                try:
                    self.point(("start",))
                    fn()
                except Abort:
                    pass
                except BaseException as e:  # noqa
                    self.failed[tid] = repr(e)
                finally:
                    with self.cv:
                        self.done.add(tid)
                        self.pending.pop(tid, None)
                        self.current = None
                        self.cv.notify_all()

            return body

        for tid, fn in enumerate(bodies):
            self.pending[tid] = None
            t = real_threading.Thread(target=wrap(tid, fn), daemon=True)
            threads.append(t)
        for t in threads:
            t.start()
        n = len(bodies)
        step = 0
        try:
            while True:
                with self.cv:
                    while not (self.current is None and all((tid in self.done) or (self.pending.get(tid) is not None) for tid in range(n))):
                        if not self.cv.wait(timeout=30):
                            raise RuntimeError("scheduler watchdog: a worker neither reached a scheduling point nor finished")
                    if len(self.done) == n:
                        break
                    enabled = []
                    for tid in range(n):
                        op = self.pending.get(tid)
                        if tid in self.done or op is None:
                            continue
                        if op[0] == "acq" and op[1].owner is not None:
                            continue
                        enabled.append(tid)
                    if state_fn is not None:
                        st = state_fn(self)
                        self.states.append(st)
                        if self.visited is not None and step >= len(self.choices):
                            if st in self.visited:
                                self.pruned = True  # everything reachable from here was (or will be) explored from the first visit
                                break
                            self.visited.add(st)
                    if not enabled:
                        self.deadlock = {tid: (self.pending[tid][0], getattr(self.pending[tid][1], "name", None) if len(self.pending[tid]) > 1 else None) for tid in range(n) if tid not in self.done}
                        break
                    if step >= self.max_steps:
                        self.deadlock = {"livelock_or_too_long": step}
                        break
                    if step < len(self.choices):
                        idx = self.choices[step] % len(enabled)
                    elif self.rng is not None:
                        idx = self.rng.randrange(len(enabled))
                    else:
                        idx = 0
                    self.trace.append((idx, len(enabled)))
                    step += 1
                    self.current = enabled[idx]
                    self.cv.notify_all()
        finally:
            with self.cv:
                self.abort = True
                self.cv.notify_all()
            for t in threads:
                t.join(timeout=10)
        return self


def explore(make_bodies, install, state_fn=None, max_executions=None, prefix=()):
    """depth-first enumeration of all schedules.  make_bodies(ex) -> list of callables after
    install(ex) put the fake namespace in place.  Yields finished Execution objects."""
    stack = list(prefix)
    count = 0
    visited = set() if state_fn is not None else None
    while True:
        ex = Execution(choices=stack, visited=visited)
        install(ex)
        ex.run(make_bodies(ex), state_fn)
        count += 1
        yield ex
        if max_executions is not None and count >= max_executions:
            return
        # backtrack: find the deepest decision (beyond the fixed prefix) with an untried alternative
        tr = ex.trace
        i = len(tr) - 1
        while i >= len(prefix) and tr[i][0] + 1 >= tr[i][1]:
            i -= 1
        if i < len(prefix):
            return
        stack = [c for c, _ in tr[:i]] + [tr[i][0] + 1]
