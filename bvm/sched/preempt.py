"""Preemption harness: park thread A at its k-th LINE event inside selected functions
(sys.monitoring local events), let thread B run a complete operation on the same shared
object, release A.  Both results are compared with sequential results by the caller."""
import sys
import threading

TOOL = 4


class Preempter:
    def __init__(self, code_objects):
        self.mon = sys.monitoring
        try:
            self.mon.use_tool_id(TOOL, "bvm-preempt")
        except ValueError:
            pass
        self.codes = list(code_objects)
        self.a_ident = None
        self.count = 0
        self.park_at = None
        self.parked = threading.Event()
        self.resume = threading.Event()
        self.where = None
        self.lines_seen = {}
        self.mon.register_callback(TOOL, self.mon.events.LINE, self._line)
        for c in self.codes:
            self.mon.set_local_events(TOOL, c, self.mon.events.LINE)

    def _line(self, code, line):
        if threading.get_ident() != self.a_ident:
            return
        k = self.count
        self.count += 1
        key = (code.co_name, line)
        self.lines_seen[key] = self.lines_seen.get(key, 0) + 1
        if k == self.park_at:
            self.where = key
            self.parked.set()
            self.resume.wait(60)

    def run(self, op_a, op_b, park_at):
        """returns (result_a, result_b, parked_where or None, events counted in A)"""
        self.count = 0
        self.park_at = park_at
        self.where = None
        self.parked.clear()
        self.resume.clear()
        box = {}

        def body():
            self.a_ident = threading.get_ident()
            try:
                box["a"] = ("ok", op_a())
            except BaseException as e:  # noqa
                box["a"] = ("exc", repr(e))
            finally:
                self.a_ident = None
                self.parked.set()

        t = threading.Thread(target=body, daemon=True)
        t.start()
        self.parked.wait(60)
        rb = None
        if self.where is not None and op_b is not None:
            try:
                rb = ("ok", op_b())
            except BaseException as e:  # noqa
                rb = ("exc", repr(e))
        self.resume.set()
        t.join(60)
        return box.get("a"), rb, self.where, self.count

    def close(self):
        for c in self.codes:
            try:
                self.mon.set_local_events(TOOL, c, 0)
            except Exception:
                pass
        self.mon.register_callback(TOOL, self.mon.events.LINE, None)
        try:
            self.mon.free_tool_id(TOOL)
        except Exception:
            pass
