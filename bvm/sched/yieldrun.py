"""Concurrent execution of a few callables with yield injection: every source line of the
given code objects that a worker thread executes is followed by a short sleep (sys.monitoring
LINE events), so that the threads interleave inside those functions instead of running one
after the other under the GIL.  Used for 'first use / shared helper object under contention'
workloads; the oracle is applied by the caller to the returned results."""
import sys
import threading
import time

TOOL = 5


def code_objects_of(*owners):
    """code objects of the plain functions / methods defined on the given modules or classes"""
    import types

    out = []
    for o in owners:
        for v in vars(o).values():
            f = getattr(v, "__func__", v)
            if isinstance(f, types.FunctionType):
                out.append(f.__code__)
            elif isinstance(v, property) and v.fget is not None:
                out.append(v.fget.__code__)
    return out


def code_objects_of_module(*modules):
    """code objects of everything defined in the given modules: module-level functions, the methods and properties of their classes,
    and the methods of the types of module-level callable INSTANCES (a function replaced by a callable object keeps its yield points)"""
    import types

    out = []
    for m in modules:
        fname = getattr(m, "__file__", None)
        owners = [m]
        for v in list(vars(m).values()):
            if isinstance(v, type) and getattr(v, "__module__", None) == m.__name__:
                owners.append(v)
            elif callable(v) and not isinstance(v, (type, types.FunctionType, types.BuiltinFunctionType, types.ModuleType)) and getattr(type(v), "__module__", None) == m.__name__:
                owners.append(type(v))
        for c in code_objects_of(*owners):
            if c.co_filename == fname and c not in out:
                out.append(c)
    return out


def run_concurrently(bodies, codes, sleep=0.0002, max_yields=20000, timeout=180, stagger=0.0):
    """-> (results, yields): results[i] = ("ok", value) | ("exc", repr) | None (still running after timeout)
    stagger: thread i starts i * stagger seconds after the barrier - threads that run the same code in lockstep all pass a
    'not yet initialised' test together; a late-comer is the one that finds a half-built structure"""
    mon = sys.monitoring
    mon.use_tool_id(TOOL, "bvm-yieldrun")
    count = [0]
    workers = set()

    def on_line(code, line):
        if threading.get_ident() in workers:
            count[0] += 1
            if count[0] < max_yields:
                time.sleep(sleep)

    mon.register_callback(TOOL, mon.events.LINE, on_line)
    for c in codes:
        mon.set_local_events(TOOL, c, mon.events.LINE)
    results = [None] * len(bodies)
    barrier = threading.Barrier(len(bodies))

    def worker(i):
        workers.add(threading.get_ident())
        try:
            barrier.wait(30)
            if stagger:
                time.sleep(stagger * i)
            results[i] = ("ok", bodies[i]())
        except BaseException as e:  # noqa
            results[i] = ("exc", repr(e))

    ths = [threading.Thread(target=worker, args=(i,), daemon=True) for i in range(len(bodies))]
    try:
        for t in ths:
            t.start()
        for t in ths:
            t.join(timeout)
    finally:
        for c in codes:
            mon.set_local_events(TOOL, c, 0)
        mon.register_callback(TOOL, mon.events.LINE, None)
        mon.free_tool_id(TOOL)
    return results, count[0]
