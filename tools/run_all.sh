#!/bin/sh
# usage: [CHECKS="C01 C02"] tools/run_all.sh <tier> [seed ...]   - runs every registered check (or $CHECKS), prints one line per check
cd "$(dirname "$0")/.." || exit 2
TIER=${1:-quick}; shift
SEEDS=${*:-0}
for s in $SEEDS; do
  for c in ${CHECKS:-C01 C02 C03 C04 C05 C06 C07 C08 C09 C10 C11 C12 C13 C14 C15 C16 C17 C18 C19 C20}; do
    t0=$(date +%s)
    out=$(VERIF_SEED=$s ./check $c --tier $TIER --no-evidence 2>&1); rc=$?
    t1=$(date +%s)
    echo "seed=$s $c rc=$rc $((t1-t0))s $(echo "$out" | grep -E 'VIOLATION|INCONCLUSIVE|KNOWN-FINDING|HELD' | head -3 | cut -c1-200 | tr '\n' '|')"
  done
done
