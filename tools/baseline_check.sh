#!/bin/sh
# runs the repository's pinned suite (guard off) and compares with BASELINE.json's stable_pass set
OUT=$(mktemp /tmp/junit-XXXX.xml)
cd /repo && env -u BEC2FORMAT_VERIF /venv/bin/python -m pytest -q -p no:cacheprovider --timeout=900 --continue-on-collection-errors --junitxml=$OUT >/dev/null 2>&1
python3 - "$OUT" <<'PY'
import json,sys,xml.etree.ElementTree as ET
base=set(json.load(open('/root/.vp/BASELINE.json'))['stable_pass'])
passed=set()
for tc in ET.parse(sys.argv[1]).getroot().iter('testcase'):
    if not any(ch.tag in('failure','error','skipped') for ch in tc):
        passed.add(tc.get('classname')+'::'+tc.get('name'))
missing=sorted(base-passed)
print("baseline stable_pass=%d, passing now=%d, stable tests no longer passing=%d"%(len(base),len(passed),len(missing)))
for m in missing[:20]: print("  MISSING",m)
sys.exit(1 if missing else 0)
PY
rc=$?; rm -f $OUT; exit $rc
