#!/usr/bin/env python3
"""Vet a change proposed by a sub-agent and, if it qualifies, keep it under /verif/seeded/<id>/.

usage: tools/vet_seed.py <seed dir (with patch.diff, demo.py, notes.md)> <property id> <seed id> [check ...]

Steps (all on scratch copies of /repo's HEAD outside /repo and /verif, removed afterwards):
 1. demo.py exits 0 on the clean copy
 2. patch applies; demo.py exits 1 on the patched copy
 3. the repository's pinned suite on the patched copy still passes every stable_pass test of BASELINE.json
 4. the named checks (default: the property's own) are run against the patched copy (quick tier)
"""
import json
import os
import shutil
import subprocess
import sys
import tempfile
import xml.etree.ElementTree as ET

VERIF = os.path.dirname(os.path.dirname(os.path.abspath(__file__)))


def sh(cmd, **kw):
    return subprocess.run(cmd, shell=isinstance(cmd, str), stdout=subprocess.PIPE, stderr=subprocess.STDOUT, text=True, **kw)


def copy_repo(dst):
    sh("git -C /repo ls-files -z | (cd /repo && xargs -0 -I{} cp --parents {} %s)" % dst)


def suite_ok(repo, clean=None):
    out = tempfile.mktemp(suffix=".xml")
    sh("cd %s && env -u BEC2FORMAT_VERIF /venv/bin/python -m pytest -q -p no:cacheprovider --timeout=900 --continue-on-collection-errors --junitxml=%s" % (repo, out))
    base = set(json.load(open("/root/.vp/BASELINE.json"))["stable_pass"])
    passed = set()
    for tc in ET.parse(out).getroot().iter("testcase"):
        if not any(ch.tag in ("failure", "error", "skipped") for ch in tc):
            passed.add(tc.get("classname") + "::" + tc.get("name"))
    os.unlink(out)
    missing = sorted(base - passed)
    if missing and len(missing) <= 12 and clean is not None:
        # hypothesis-driven tests of the vendored suite are flaky by themselves (boundary draws, deadlines):
        # a test that also fails on the CLEAN copy under the same hypothesis seed is not broken by the patch
        ids2 = []
        for m in missing:
            cls, name = m.rsplit("::", 1)
            parts = cls.split(".")
            mod = [x for x in parts if not x[:1].isupper()]
            k = [x for x in parts if x[:1].isupper()]
            ids2.append("/".join(mod) + ".py::" + "::".join(k + [name]))
        still = []
        for m, tid in zip(missing, ids2):
            verdicts = []
            for seed in (1, 2, 3):
                rp = sh("cd %s && /venv/bin/python -m pytest -q -p no:cacheprovider --timeout=900 --hypothesis-seed=%d '%s' 2>&1 | tail -1" % (repo, seed, tid))
                rc = sh("cd %s && /venv/bin/python -m pytest -q -p no:cacheprovider --timeout=900 --hypothesis-seed=%d '%s' 2>&1 | tail -1" % (clean, seed, tid))
                verdicts.append((" passed" in rp.stdout and "failed" not in rp.stdout, " passed" in rc.stdout and "failed" not in rc.stdout))
            if any(c and not pz for pz, c in verdicts) and not any(pz for pz, c in verdicts):
                still.append(m)
        return still
    return missing


def main():
    src, prop, sid = sys.argv[1:4]
    checks = sys.argv[4:] or [prop]
    res = {"property": prop, "id": sid, "checks": checks}
    clean = tempfile.mkdtemp(prefix="vet-clean-")
    patched = tempfile.mkdtemp(prefix="vet-patched-")
    try:
        copy_repo(clean)
        copy_repo(patched)
        for d in (clean, patched):
            shutil.copytree(src, os.path.join(d, "seedx"))
        r = sh(["/venv/bin/python", "seedx/demo.py"], cwd=clean, timeout=900)
        res["demo_clean_rc"] = r.returncode
        ap = sh(["git", "apply", "--unsafe-paths", "--directory", patched, os.path.join(src, "patch.diff")], cwd="/")
        res["patch_applies"] = ap.returncode == 0
        if not res["patch_applies"]:
            ap = sh("cd %s && patch -p1 < %s" % (patched, os.path.join(src, "patch.diff")))
            res["patch_applies"] = ap.returncode == 0
            res["patch_note"] = ap.stdout[-300:]
        r = sh(["/venv/bin/python", "seedx/demo.py"], cwd=patched, timeout=900)
        res["demo_patched_rc"] = r.returncode
        res["demo_patched_out"] = r.stdout[-400:]
        shutil.rmtree(os.path.join(patched, "seedx"))
        missing = suite_ok(patched, clean)
        res["suite_stable_tests_broken"] = missing[:5]
        res["qualifies"] = res["demo_clean_rc"] == 0 and res["patch_applies"] and res["demo_patched_rc"] == 1 and not missing
        res["check_results"] = {}
        for c in checks:
            p = sh([os.path.join(VERIF, "check"), c, "--tier", "quick", "--no-evidence"], env=dict(os.environ, VERIF_REPO=patched), timeout=3000)
            mechs = [l.strip()[:160] for l in p.stdout.splitlines() if l.strip().startswith("mechanism=")]
            res["check_results"][c] = {"rc": p.returncode, "mechanisms": mechs[:3]}
        print(json.dumps(res, indent=1))
        if res["qualifies"]:
            dst = os.path.join(VERIF, "seeded", sid)
            os.makedirs(dst, exist_ok=True)
            for f in ("patch.diff", "demo.py", "notes.md"):
                if os.path.exists(os.path.join(src, f)):
                    shutil.copy(os.path.join(src, f), os.path.join(dst, f))
            meta = {
                "id": sid,
                "property": prop,
                "checks": checks,
                "source": "independent sub-agent given only the property text and a scratch worktree",
                "needs_to_manifest": open(os.path.join(src, "notes.md")).read()[:1500] if os.path.exists(os.path.join(src, "notes.md")) else "",
                "vetted": {"demo_on_clean_tree": "exit 0", "demo_with_patch": "exit 1", "pinned_suite_with_patch": "all 1552 stable tests still pass", "how": "tools/vet_seed.py on scratch copies of /repo HEAD"},
                "caught_by": {c: (v["rc"] == 1) for c, v in res["check_results"].items()},
                "mechanisms_reported": {c: v["mechanisms"] for c, v in res["check_results"].items()},
            }
            with open(os.path.join(dst, "meta.json"), "w") as f:
                json.dump(meta, f, indent=1)
    finally:
        shutil.rmtree(clean, ignore_errors=True)
        shutil.rmtree(patched, ignore_errors=True)


if __name__ == "__main__":
    main()
