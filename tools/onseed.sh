#!/bin/sh
# tools/onseed.sh <seed-id> <check> [more checks]  - run quick tiers against a scratch copy of /repo with the seeded patch applied
cd "$(dirname "$0")/.." || exit 2
id=$1; shift
D=$(mktemp -d /tmp/onseed-XXXXXX)
(cd /repo && git ls-files -z | xargs -0 -I{} cp --parents {} "$D")
(cd / && git apply --unsafe-paths --directory "$D" "/verif/seeded/$id/patch.diff") || { echo "PATCH DOES NOT APPLY"; rm -rf "$D"; exit 2; }
for c in "$@"; do
  VERIF_REPO=$D ./check "$c" --tier "${TIER:-quick}" --no-evidence | grep "mechanism=\|^HELD\|^VIOLATION\|^INCONCL" | cut -c1-${WIDTH:-260} | head -${LINES_:-6}
done
rm -rf "$D"
