#!/bin/sh
# tools/vet.sh <seed-dir> <prop> <seed-id> [checks...]  -> one summary line
cd "$(dirname "$0")/.." || exit 2
timeout 3400 python3 tools/vet_seed.py "$@" 2>&1 | python3 -c "
import sys,json
try:
    d=json.load(sys.stdin)
except Exception as e:
    print('VET ERROR', e); sys.exit(0)
print(d['id'], 'qualifies' if d['qualifies'] else 'REJECTED rc=%s/%s applies=%s'%(d['demo_clean_rc'],d['demo_patched_rc'],d.get('patch_applies')), {k:(v['rc'],[m[10:110] for m in v['mechanisms'][:1]]) for k,v in d['check_results'].items()}, d.get('suite_stable_tests_broken'))"
