#!/bin/sh
# Diagnostic: line/branch coverage of /repo's bec2format + appnotes plug-in under the union of the named checks'
# quick tiers (default: all).  Not a verdict - it shows which code the monitors never see.
# usage: tools/coverage_report.sh [tier] [Cnn ...]
cd "$(dirname "$0")/.."
tier=${1:-quick}; [ $# -gt 0 ] && shift
props=${*:-C01 C02 C03 C04 C05 C06 C07 C08 C09 C10 C11 C12 C13 C14 C15 C16 C17 C18 C19 C20}
d=$(mktemp -d /tmp/bvm-cover-XXXXXX)
export BVM_COVER=$d
for p in $props; do
  timeout 3000 ./check $p --tier $tier --no-evidence 2>&1 | tail -1
done
cd $d && /venv/bin/python -m coverage combine --data-file=$d/all $d/cov.* >/dev/null 2>&1
/venv/bin/python -m coverage report --data-file=$d/all --include='*/bec2format/*,*/register_crypto_plugin/__init__.py,*/pyaes/*,*/ecdsa/*.py' --omit='*/test_*' -m --skip-empty 2>&1 | cut -c1-400
rm -rf $d
