#!/usr/bin/env python3
"""Regenerates MANIFEST.json from the per-property metadata below + which drivers exist."""
import json
import os
import subprocess

VERIF = os.path.dirname(os.path.dirname(os.path.abspath(__file__)))

CHECKS = {
    "C15": dict(
        technique="reference-model monitor (bit-serial CRC) over the complete single-step relation + fold/split monitor on random strings",
        text="Runtime observation of the real crc8404B against a bit-serial reference on every one of the 2^24 (start,byte) steps (complete enumeration, so any table/shift/mask error in a single step is seen) plus end-to-end and split-point observations on ~10^5-10^6 strings. The step relation is exhaustive; the lift to all strings rests on the observed fold behaviour.",
        note="Trusts CPython integer arithmetic and the bit-serial reference (anchored to the catalogue check value 0x6F91).",
        design="5/C15",
    ),
    "C08": dict(
        technique="reference-model monitor: frame model + OpenSSL AES-CBC opened on every ciphertext the real encryptors emit; hostile frames (wrong marker/CRC/key) offered to the real decryptors",
        text="Every payload length 0..253 is driven through the real SoftwareCustKeyEncryptor/ConfigSecurityCodeEncryptor; each ciphertext is decrypted by OpenSSL and compared byte for byte with an independently written frame model, unwrapped by the same and by a fresh object, unwrapped under other keys, and model-built frames with wrong marker/CRC are offered to the decryptor. Contents are solved so that each CRC byte takes every value incl. 0x00. Held on the observed cases only.",
        note="Trusts OpenSSL AES-128-CBC and the frame model written from the property text; 'error' = any exception.",
        design="5/C08",
    ),
    "C16": dict(
        technique="reference-model monitors: GF(2^8) table definitions (exhaustive), OpenSSL differential monitor for block cipher/modes/feeders under enumerated and random chunkings, call-history monitor for the registered adapter",
        text="All 14 lookup tables are compared entry by entry with their GF(2^8) definitions (complete). Block cipher, the five modes, the padded feeders and stream helpers are compared with OpenSSL / textbook modes for 16/24/32-byte keys under every composition of short inputs and random chunkings of longer ones; adapter objects are driven through random call histories with every result compared with a stateless zero-padded CBC reference, global state snapshotted before/after.",
        note="Trusts OpenSSL (anchored to FIPS-197 app. C and SP 800-38A app. F vectors embedded in the check).",
        design="5/C16",
    ),
    "C10": dict(
        technique="reference-model monitor: independent TLV decoder applied to every blob the real set_config/conf_dict_to_tlv emit, compared with the operation list the dictionary denotes",
        text="Directed dictionaries (every content length 0..254, entry sizes on/around the 117-byte limit, oversize entry first/middle/last, steered block sums, extra blocks) and 10^4-10^6 seeded random dictionaries are encoded by the real code; an independently written decoder checks framing, non-empty blocks, the 117-byte bound when every entry fits, exact operation list and order, unchanged extra blocks and the component tags.",
        note="Trusts the decoder written from the property text; a group closed by end-of-block is accepted (statement does not require FF).",
        design="5/C10",
    ),
    "C12": dict(
        technique="reference-model monitor: independent formatter/parser/derivation model compared with ConfigId on complete single-field sweeps, configuration subsets and mutated texts",
        text="Complete sweeps of each numeric field (customer 0..99999 w/o 9999, project/device 0..9999, version 0..99) crossed with a name list are printed, re-parsed and compared; canonical texts are parsed and re-printed; every subset of the 0x0620 naming values in 5 byte widths is derived through both constructors and compared with the model; texts matching neither documented form must raise ConfigIdFormatError. One known finding (inherent text-form ambiguity) is listed in known_findings.json.",
        note="Trusts the model of the two documented text forms; names outside the stated domain (empty, multi-line, surrounding blanks) are not generated.",
        design="5/C12",
    ),
    "C01": dict(
        technique="round-trip monitor: model-built objects written and read by the real code through StringIO and file paths, compared field by field with the model; file bytes inspected for CRLF; ResourceWarning trap",
        text="Directed (every payload length 1..50 and around multiples of 16/40/256/4096, 0..33 trailing zeros, description sizes up to 210 and beyond, zero components/comments) and seeded random file objects are written with the real writer and read back with the real reader in 5 configurations (stream/path x MAC on/off, path-written read as stream). The object read back is compared with the generator's model of what was written, so symmetric damage of the input object is seen too.",
        note="Equality oracle only; symmetric writer/reader errors are C03's business. Shards run with PYTHONUTF8=1.",
        design="5/C01",
    ),
    "C03": dict(
        technique="invariant-at-a-hook monitor: wrappers on Bf3File.to_binary / Bec2File.to_binary / write_bf3_format compare every output with an independent serialiser+parser (OpenSSL MACs); auth blocks opened by independent container/ECIES models",
        text="Every call of the three writer functions - made by the generated workload (offsets 0..2^16+, all 15 ordered auth-block lists, encrypted components, unsorted tag order) and by the four appnote scripts - is intercepted; the produced bytes must equal the independent serialiser's bytes and be accepted by the independent parser, the text envelope must be comment lines, one blank line and 80-column upper-case hex. Each auth block is additionally opened with OpenSSL-based models using the harness's keys.",
        note="Trusts OpenSSL AES/ECDH and the layout model written from the property text; a trailing empty line in the text is tolerated.",
        design="5/C03",
    ),
    "C04": dict(
        category="fault_enumeration",
        technique="fault-injection monitor: exhaustive single-byte replacement / prefix / suffix / key-bit faults on authentic files, oracle = reader raises or returns the original content",
        text="For each authentic BF3/BEC2 file (12 shapes: 0/1/3 components, trailing-zero payloads, lengths 1/16/17, encrypted component, 1-3 auth blocks incl. ECC) every byte position x 11 replacement classes, every proper prefix of binary and text, appended suffixes and all 128 single-bit session-key changes (decryptor key and re-wrapped block for BEC2) are fed to the real reader. The per-file fault space is enumerated completely; the set of files is a sample.",
        note="Any exception counts as 'reports an error'. ECC files get a reduced body sweep (cost).",
        design="5/C04",
    ),
    "C05": dict(
        technique="reference-model monitor: independent validator (rule list of the property, OpenSSL MACs) compared with the real reader's accept/reject decision and returned content on ~50 kinds of structured edits with MACs recomputed",
        text="Valid files and structured edits that break exactly one rule (addresses, stored/declared lengths, duplicate/overlong tags, description/entry/directory sizes, sentinel, entry order and MAC index, trailing bytes, signature, truncations incl. the payload cut that keeps the zero-padded MAC valid, a self-consistent extra byte after the entry MAC, wrong key) are offered to Bf3File.read_file and from_binary; the reader must accept exactly when the validator does and return what the fields say. The harness asserts that the validator names the intended rule for every edit.",
        note="Trusts the validator written from the rule list; declared length >= 1; any exception = reject.",
        design="5/C05",
    ),
    "C02": dict(
        technique="round-trip monitor over directed key/block-list/decryptor-subset bins: session key, block attributes (pass-through blocks by raw bytes) and content compared with the model of what was written",
        text="All 15 ordered block lists, selectors 0..3, versions and codes with edge values, keys ending in 1/2/3/15 zero bytes and keys/versions solved so that each AES block's CRC has a 00 low/high/both byte, customer key present/absent, encrypted configuration components, and every non-empty decryptor subset are written by the real writer and read by the real reader; the result is compared field by field.",
        note="Equality oracle; format-level conformance of the same files is C03/C08/C09.",
        design="5/C02",
    ),
    "C06": dict(
        technique="reference-model monitor (OpenSSL CBC of the zero-padded content vs the stored payload found by the independent parser) + needle scan + fault injection at every crypto call index of a write",
        text="Contents of every length mod 16 and 0..17 trailing zeros (via set_config and direct construction, BF3 and BEC2 framing) are written; the stored payload must equal OpenSSL AES-128-CBC under the session key with zero IV, reading must return the content up to the declared length with the flag set, high-entropy needles must not occur in text or binary. A failing cipher is injected at each single crypto call of a write (and the cipher unregistered): the write must raise and nothing containing a needle may reach the stream or file.",
        note="Only high-entropy needles are scanned; cipher registration is changed inside the shard process and restored.",
        design="5/C06",
    ),
    "C07": dict(
        technique="history monitors: hooks on the registered RNG and key generator record every draw (i-th file <-> i-th draw, distinctness, one ephemeral key per ECC wrap); independent unwrap of every written block; model-built spliced headers; read->write pass-through comparison",
        text="Creations without explicit key are matched one-to-one against recorded RNG draws (also with a counting RNG registered), every written header is opened block by block with independent models and the common key must authenticate the directory, ephemeral points are tied to the recorded generator calls and must be pairwise distinct across writes and rewrites, all ordered pairs/triples of block kinds are spliced around two different keys (the equal-key control must be accepted), and files re-read with every decryptor subset are written again with pass-through blocks compared byte for byte.",
        note="RNG collisions ignored; splice rejection required only with decryptors for both differing blocks.",
        design="5/C07",
    ),
    "C09": dict(
        technique="reference-model monitor: independent ECIES (OpenSSL ECDH/point check + SHA-256 + AES-CBC) opens every packed block; ephemeral key pinned through a hook on the key generator to decide the default-recipient case; invalid-point fault classes offered to the real decryptor",
        text="Blocks packed for explicit recipients (edge scalars 1,2,n-2,n-1,2^k,2^k-1, random) are opened by OpenSSL with the recipient's private key; without explicit recipient (no encryptors / only other selectors / EccEncryptor(sel)) the generator hook pins the ephemeral key so the expected block for the published key of that selector is computed independently and compared byte for byte, and the key passed to the DH call is recorded. Ten classes of invalid ephemeral points must be refused by decrypt/unpack.",
        note="Published keys pinned as specification data; 'refuses' = any exception.",
        design="5/C09",
    ),
    "C11": dict(
        technique="history monitor: operation sequences executed on the real Bf3File/Bec2File objects and on a sequential model in lock-step, compared after every operation (independent TLV decoder and identifier model)",
        text="All operation sequences up to length 4 (quick) / 5 (thorough) over a reduced 10-letter alphabet (set_config of two configurations, derive comments, derive auth blocks in both modes, append/insert components with and without TYPE tag, write+read back, foreign comment edit) plus random sequences of length 5..25 over the full 43-letter alphabet are run; after each operation the number/position/content of the configuration component, all other components, the derived and foreign comments and the auth-block map are compared with the model.",
        note="Bounded histories; 'configuration last' is demanded right after set_config; RequiresBusAddress with an all-zero value is not judged.",
        design="5/C11",
    ),
    "C13": dict(
        technique="reference-model monitor: grammar-generated BF2 texts with ground truth (image cut into data lines); payload compared with the image / raw lines / extents, tags with pinned specification data, filter comment by evaluating the rendered expression against the filter bytes",
        text="BF2 files over every mapped tag type, ignored sections, images up to 200 KB with line sizes 1..250 and page crossings, release/debug firmware comments, CRC/REBOOT/version descriptors, multi-group filters are imported; every component payload must equal the generator's image (blob) or concatenated raw lines (BF2-compatible); extents go through bf2_unpack_payload/bf2_convert_payload directly (memory image). Gaps at first/middle/last line, overlaps, non-zero start, unknown/unmapped tag types and a missing BF3 marker must be rejected.",
        note="Tag rules are pinned specification data (detects change, cannot judge); payload oracle is independent; sections restate their instructions.",
        design="5/C13",
    ),
    "C14": dict(
        technique="exception-type monitor + logical step budget (sys.monitoring PY_START/JUMP/BRANCH counter) + per-call user-CPU-time bound (ITIMER_VIRTUAL, for loops inside C code) + global-state snapshot and fixed-reference-input re-check (returned objects are modified in between), over exhaustive single-character mutations/prefixes, near-valid deep-path files and random text",
        text="Every parsing entry point (BF3 reader stream/path/MAC off, BEC2 reader with 7 decryptor sets, BF2 importer in both modes, identifier parser, filter formatter) is driven with all prefixes and all single-character deletions/replacements of valid files, line swaps/duplications, token insertions, multi-mutations, 30 classes of near-valid files with MACs and frames recomputed, and random text/hex (~2.6e5 calls quick). Any exception other than FormatError/ValueError subclasses, exceeding the step budget, a changed global snapshot or a changed result for fixed reference inputs is a violation.",
        note="'never hangs' is decided by a logical step budget (3e6 + 3e4 x input length) and a user-CPU-time bound per call (20 s + 2 ms/char; counts only time the process executes, so load does not move it), never by wall-clock; the wall-clock watchdog yields inconclusive only.",
        design="5/C14",
    ),
    "C17": dict(
        technique="reference-model monitor: complete affine group tables of enumerated small prime-order curves compared with PointJacobi/Point results in many projective representations; OpenSSL differential monitor on the 17 shipped curves",
        text="On every selected prime-order curve over F_p (p<=43 quick / all ~1000 curves with p<=61 thorough) every ordered pair of group elements is added in 12 combinations of projective representations (incl. library-produced unreduced negative y, equal z, different z, doubled results), every element is multiplied by every scalar 0..2n+1 (0..4n+3 without order / affine) in five representations incl. the precompute path, mul_add over edge scalar pairs, affine Point arithmetic and equality across representations, all compared with the enumerated group table. On the shipped curves k*G, k*Q, mul_add, negation/scale combinations and ECDH are compared with OpenSSL for edge and random scalars, and off-curve / out-of-range (incl. congruent) / zero / other-curve / infinity points are offered to every public-key loader and to ECDH.",
        note="Small curves are complete; shipped curves are sampled. Results compared as group elements (coordinates mod p).",
        design="5/C17",
    ),
    "C18": dict(
        technique="differential monitor against OpenSSL ECDSA on raw digests + RFC 6979 reference model (anchored to the RFC vectors) + exhaustive single-bit tampering monitor with exception-type oracle",
        text="For all 17 curves x five hashes x six encodings: library signatures are verified by the library and OpenSSL (strict DER), OpenSSL signatures (s and n-s) by the library, deterministic signatures are compared with an independent RFC 6979 model using OpenSSL for k*G; every bit of a 16-byte message and of the encoded signature is flipped and must give BadSignatureError, as must another key, r,s in {0,n,n+1,2^k,r+n,s+n} and truncated/extended/re-tagged encodings; decoders may only raise MalformedSignature/UnexpectedDER.",
        note="OpenSSL gets raw digests so truncation rules are compared independently; EdDSA excluded.",
        design="5/C18",
    ),
    "C19": dict(
        technique="differential monitor against OpenSSL d2i/i2d and point conversion in both directions + accept/reject and exception-type monitors over all prefixes, appended suffixes and single-byte mutations of valid encodings",
        text="For all 17 curves and keys incl. small / leading-zero scalars and leading-zero coordinates: every public (raw, uncompressed, compressed, hybrid, DER named/explicit x 3 point forms, PEM) and private (raw, SEC1/PKCS#8 x named/explicit, PEM) encoding is decoded back, parsed by OpenSSL to the same key, OpenSSL's encodings are parsed by the library, SPKI/SEC1 bytes must equal OpenSSL's; the 27-byte P-256 header conversion of bec2format.crypto is checked against OpenSSL SPKI. Every proper prefix and three suffixes of each encoding must be rejected (format pinned), ~12 replacement values at every byte and PEM cuts may only raise UnexpectedDER/MalformedPointError/UnknownCurveError/ValueError.",
        note="Mutation acceptance is not judged (may be another valid key); quick tier mutates 3 curves, thorough all 17.",
        design="5/C19",
    ),
    "C20": dict(
        category="model_checking",
        technique="controlled-schedule monitors on the real code: sys.monitoring LINE-event preemption harness for shared points (A parked at each line, B runs a whole operation, results compared with sequential runs); stateless depth-first schedule enumeration with visited-state pruning of the real RWLock under a scheduler that owns every Lock operation; random line-granularity schedules; uncontrolled stress",
        text="Points: for fresh generator objects (empty lazy table) and unscaled public points on SECP112r1/SECP128r1 (+NIST192p/256p thorough), thread A is parked at the LINE events of _maybe_precompute/scale/__mul__/mul_add/to_affine/... while thread B performs k*G, mul_add, signature verification, scale, to_affine, equality or a pickle round trip on the same object; both results and the object left behind must equal the sequential results. Lock: the real RWLock runs with a fake threading namespace; every interleaving of lock operations of 1R+1W, 2R, 2R+1W, 1R+2W, 1R+1W x2 (quick) and 2R+2W, 3R+1W, 3R+2W, x2 variants (thorough) is enumerated (state = thread progress, pending ops, lock owners, holder set, both switch counters read back from the object); the holder-set invariant is evaluated at every critical-section entry, deadlock = no enabled thread, two readers must be seen holding together, and everything must be released at the end.",
        note="Bounded thread counts; source-line / lock-operation granularity; every explored execution is a run of the real code (traces_validated_against_impl = executions). Locks the lock object reaches that were not created during its construction (class attributes, module globals) are adopted as controlled locks, one per distinct real lock.",
        design="5/C20",
    ),
}

NOT_YET = "check not built yet in this session (see DESIGN.md section 5 for the planned monitor)"


def main():
    props = [json.loads(l) for l in open(os.path.join(VERIF, "properties.jsonl"))]
    try:
        hooks_commits = json.load(open(os.path.join(VERIF, "hooks_commits.json")))
    except FileNotFoundError:
        hooks_commits = []
    checks = []
    na = []
    for p in props:
        pid = p["id"]
        meta = CHECKS.get(pid)
        if meta is None or not os.path.exists(os.path.join(VERIF, "bvm", "props", pid.lower() + ".py")):
            na.append({"property_id": pid, "reason": NOT_YET})
            continue
        checks.append(
            {
                "property_id": pid,
                "quick_cmd": "./check %s --tier quick" % pid,
                "thorough_cmd": "./check %s --tier thorough" % pid,
                "evidence_file": "/verif/evidence/%s.json" % pid,
                "replay_cmd_template": "./check %s --replay {path}" % pid,
                "engine": "bvm",
                "level_claimed": {
                    "category": meta.get("category", "exploration"),
                    "text": meta["text"],
                    "design_ref": "DESIGN.md section " + meta["design"],
                },
                "level_note": meta["note"],
                "technique": meta["technique"],
            }
        )
    manifest = {
        "version": 1,
        "setup_cmd": "./check --setup",
        "hooks": {
            "guard": "BEC2FORMAT_VERIF",
            "enable": "no source hooks: all monitors are installed from the harness by wrapping attributes of the imported modules; the harness sets BEC2FORMAT_VERIF=1 for its own bookkeeping, nothing in /repo reads it",
            "baseline_off_cmd": "cd /repo && /venv/bin/python -m pytest -ra -q -p no:cacheprovider --timeout=900 --continue-on-collection-errors",
            "source_commits": hooks_commits,
            "add_only": True,
        },
        "engines": [
            {
                "name": "bvm",
                "path": "/verif/bvm",
                "serves_properties": [c["property_id"] for c in checks],
                "kind_free_text": "runtime monitors (reference-model, invariant-at-hook, history and controlled-schedule monitors) driving the real code from /repo's working tree in fresh interpreters, 16 shards",
            }
        ],
        "checks": checks,
        "notes": "All checks: ./check Cnn --tier quick|thorough ; env VERIF_SEED, VERIF_TIER, VERIF_REPO. Exit 0 held / 1 VIOLATION / 2 INCONCLUSIVE. Known findings: /verif/known_findings.json.",
        "not_applicable": na,
    }
    with open(os.path.join(VERIF, "MANIFEST.json"), "w") as f:
        json.dump(manifest, f, indent=1)
        f.write("\n")
    print("checks:", [c["property_id"] for c in checks])
    print("not claimed:", [n["property_id"] for n in na])


if __name__ == "__main__":
    main()
