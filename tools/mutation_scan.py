#!/usr/bin/env python3
"""Diagnostic (not a registered check): automatic small mutations of the bec2format / plug-in / pyaes sources, each
applied to a scratch copy of /repo; the quick tiers of the relevant checks run against the copy until one exits 1.
Mutants no check notices are listed with their diff - they are either equivalent to the original or blind spots.

usage: tools/mutation_scan.py [--n 300] [--seed 1] [--jobs 3] [--out FILE] [--files a.py,b.py]
"""
import argparse
import ast
import concurrent.futures
import copy
import difflib
import json
import os
import random
import shutil
import subprocess
import sys
import tempfile
import time

VERIF = os.path.dirname(os.path.dirname(os.path.abspath(__file__)))
REPO = "/repo"
FILES = {
    "bec2format/bf3file.py": ["C10", "C12", "C13", "C05", "C11", "C01", "C03", "C06", "C02", "C04", "C14"],
    "bec2format/bec2file.py": ["C08", "C15", "C09", "C07", "C02", "C11", "C03", "C06", "C04", "C14"],
    "bec2format/configid.py": ["C12", "C11", "C14"],
    "bec2format/bytes_reader.py": ["C05", "C13", "C01", "C04", "C14"],
    "bec2format/crypto.py": ["C08", "C09", "C19", "C07", "C06", "C16"],
    "appnotes/register_crypto_plugin/__init__.py": ["C16", "C09", "C19", "C08", "C06", "C07", "C14"],
    "appnotes/register_crypto_plugin/pyaes/aes.py": ["C16"],
    "appnotes/register_crypto_plugin/pyaes/blockfeeder.py": ["C16"],
    "appnotes/register_crypto_plugin/ecdsa/keys.py": ["C19", "C18", "C17", "C09"],
    "appnotes/register_crypto_plugin/ecdsa/der.py": ["C19", "C18"],
    "appnotes/register_crypto_plugin/ecdsa/ecdh.py": ["C17", "C09"],
    "appnotes/register_crypto_plugin/ecdsa/rfc6979.py": ["C18"],
    "appnotes/register_crypto_plugin/ecdsa/ecdsa.py": ["C18", "C17", "C19"],
    "appnotes/register_crypto_plugin/ecdsa/ellipticcurve.py": ["C17", "C20", "C19", "C18"],
    "appnotes/register_crypto_plugin/ecdsa/util.py": ["C18", "C19"],
    "appnotes/register_crypto_plugin/ecdsa/_rwlock.py": ["C20"],
    "appnotes/register_crypto_plugin/ecdsa/numbertheory.py": ["C17", "C19", "C18"],
}
SKIP_FUNCS = {"__repr__", "__str__x"}
CMP = {ast.Eq: ast.NotEq, ast.NotEq: ast.Eq, ast.Lt: ast.LtE, ast.LtE: ast.Lt, ast.Gt: ast.GtE, ast.GtE: ast.Gt, ast.In: ast.NotIn, ast.NotIn: ast.In, ast.Is: ast.IsNot, ast.IsNot: ast.Is}


class Sites(ast.NodeVisitor):
    def __init__(self):
        self.sites = []
        self.stack = []

    def visit_FunctionDef(self, node):
        if node.name in SKIP_FUNCS:
            return
        self.stack.append(node.name)
        self.generic_visit(node)
        self.stack.pop()

    def add(self, node, kind, arg=None):
        self.sites.append((getattr(node, "lineno", 0), getattr(node, "col_offset", 0), type(node).__name__, kind, arg, ".".join(self.stack)))

    def visit_Compare(self, node):
        for i, op in enumerate(node.ops):
            if type(op) in CMP:
                self.add(node, "cmp", i)
        self.generic_visit(node)

    def visit_BoolOp(self, node):
        self.add(node, "boolop")
        self.generic_visit(node)

    def visit_UnaryOp(self, node):
        if isinstance(node.op, ast.Not):
            self.add(node, "dropnot")
        self.generic_visit(node)

    def visit_BinOp(self, node):
        if isinstance(node.op, (ast.Add, ast.Sub)) and not isinstance(node.left, ast.Constant) or isinstance(node.op, (ast.Add, ast.Sub)) and isinstance(node.left, ast.Constant) and isinstance(node.left.value, int):
            self.add(node, "addsub")
        self.generic_visit(node)

    def visit_Constant(self, node):
        if isinstance(node.value, int) and not isinstance(node.value, bool):
            self.add(node, "const+1")
            if node.value > 0:
                self.add(node, "const-1")
        self.generic_visit(node)

    def visit_If(self, node):
        self.add(node, "ifnot")
        self.generic_visit(node)

    def visit_Raise(self, node):
        # error messages and raised types are not mutated
        return

    def visit_Expr(self, node):
        if isinstance(node.value, ast.Constant) and isinstance(node.value.value, str):
            return  # docstring
        self.generic_visit(node)


class Apply(ast.NodeTransformer):
    def __init__(self, site):
        self.site = site
        self.done = False

    def match(self, node, kind):
        s = self.site
        return not self.done and getattr(node, "lineno", -1) == s[0] and getattr(node, "col_offset", -1) == s[1] and type(node).__name__ == s[2] and s[3] == kind

    def visit_Compare(self, node):
        self.generic_visit(node)
        if self.match(node, "cmp"):
            node.ops[self.site[4]] = CMP[type(node.ops[self.site[4]])]()
            self.done = True
        return node

    def visit_BoolOp(self, node):
        self.generic_visit(node)
        if self.match(node, "boolop"):
            node.op = ast.Or() if isinstance(node.op, ast.And) else ast.And()
            self.done = True
        return node

    def visit_UnaryOp(self, node):
        self.generic_visit(node)
        if self.match(node, "dropnot"):
            self.done = True
            return node.operand
        return node

    def visit_BinOp(self, node):
        self.generic_visit(node)
        if self.match(node, "addsub"):
            node.op = ast.Sub() if isinstance(node.op, ast.Add) else ast.Add()
            self.done = True
        return node

    def visit_Constant(self, node):
        if self.match(node, "const+1"):
            self.done = True
            return ast.copy_location(ast.Constant(node.value + 1), node)
        if self.match(node, "const-1"):
            self.done = True
            return ast.copy_location(ast.Constant(node.value - 1), node)
        return node

    def visit_If(self, node):
        self.generic_visit(node)
        if self.match(node, "ifnot"):
            node.test = ast.UnaryOp(ast.Not(), node.test)
            self.done = True
        return node


def copy_repo(dst):
    subprocess.run("git -C %s ls-files -z | (cd %s && xargs -0 -I{} cp --parents {} %s)" % (REPO, REPO, dst), shell=True, check=True)


def run_mutant(job):
    idx, rel, site, base_src, mut_src = job
    tmp = tempfile.mkdtemp(prefix="bvm-mut-")
    t0 = time.time()
    try:
        copy_repo(tmp)
        with open(os.path.join(tmp, rel), "w") as f:
            f.write(mut_src)
        # must still import
        imp = subprocess.run(["/venv/bin/python", "-B", "-c", "import sys; sys.path[:0]=[%r, %r]; import register_crypto_plugin, bec2format" % (tmp + "/appnotes", tmp)], capture_output=True, text=True, timeout=120)
        if imp.returncode != 0:
            return {"idx": idx, "file": rel, "site": site, "status": "does_not_import"}
        ran = []
        for chk in FILES[rel]:
            env = dict(os.environ, VERIF_REPO=tmp, VERIF_JOBS="8")
            try:
                p = subprocess.run([os.path.join(VERIF, "check"), chk, "--tier", "quick", "--no-evidence"], env=env, capture_output=True, text=True, timeout=1500)
                rc = p.returncode
            except subprocess.TimeoutExpired:
                rc = 3
            ran.append((chk, rc))
            if rc == 1:
                mech = [l.strip() for l in p.stdout.splitlines() if l.strip().startswith("mechanism=")][:1]
                return {"idx": idx, "file": rel, "site": site, "status": "caught", "by": chk, "after": [c for c, _ in ran], "mechanism": (mech[0][:140] if mech else ""), "secs": round(time.time() - t0)}
        diff = "".join(difflib.unified_diff(base_src.splitlines(True), mut_src.splitlines(True), rel, rel, n=1))
        return {"idx": idx, "file": rel, "site": site, "status": "survived", "ran": ran, "diff": diff[:1500], "secs": round(time.time() - t0)}
    finally:
        shutil.rmtree(tmp, ignore_errors=True)


def main():
    ap = argparse.ArgumentParser()
    ap.add_argument("--n", type=int, default=300)
    ap.add_argument("--seed", type=int, default=1)
    ap.add_argument("--jobs", type=int, default=3)
    ap.add_argument("--out", default="/tmp/mutation_scan.jsonl")
    ap.add_argument("--files", default="")
    a = ap.parse_args()
    rng = random.Random(a.seed)
    jobs = []
    files = [f for f in FILES if not a.files or f in a.files.split(",")]
    for rel in files:
        src = open(os.path.join(REPO, rel)).read()
        tree = ast.parse(src)
        base_norm = ast.unparse(tree)
        sv = Sites()
        sv.visit(tree)
        for site in sv.sites:
            t2 = copy.deepcopy(tree)
            ap2 = Apply(site)
            t2 = ap2.visit(t2)
            if not ap2.done:
                continue
            ast.fix_missing_locations(t2)
            mut = ast.unparse(t2)
            if mut == base_norm:
                continue
            jobs.append((rel, site, base_norm, mut))
    rng.shuffle(jobs)
    jobs = [(i,) + j for i, j in enumerate(jobs[: a.n])]
    print("mutation sites total=%d, running %d" % (len(jobs), len(jobs)), flush=True)
    out = open(a.out, "a")
    counts = {}
    with concurrent.futures.ThreadPoolExecutor(a.jobs) as ex:
        for res in ex.map(run_mutant, jobs):
            counts[res["status"]] = counts.get(res["status"], 0) + 1
            out.write(json.dumps(res) + "\n")
            out.flush()
            print("%4d %-9s %-48s %-24s %s" % (res["idx"], res["status"], res["file"].split("/")[-1] + ":" + str(res["site"][0]) + " " + res["site"][3] + " in " + res["site"][5], res.get("by", ""), res.get("mechanism", "")[:70]), flush=True)
    print("summary:", counts)


if __name__ == "__main__":
    main()
