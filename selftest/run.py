#!/usr/bin/env python3
"""Deliberate breaks: apply each mutant (exact text replacement) to a scratch copy of
/repo's working tree, run the named checks' quick tier with VERIF_REPO pointing at the
copy, require exit 1 (VIOLATION).  The copy lives outside /repo and /verif and is
removed afterwards.

usage: selftest/run.py [name-substring ...]      (no argument: all mutants)
       selftest/run.py --seeded [id ...]         run the checks against /verif/seeded/<id>/patch.diff
"""
import json
import os
import shutil
import subprocess
import sys
import tempfile
import time

VERIF = os.path.dirname(os.path.dirname(os.path.abspath(__file__)))
REPO = os.environ.get("VERIF_REPO_SRC", "/repo")


def copy_repo(dst):
    subprocess.run("git -C %s ls-files -z | (cd %s && xargs -0 -I{} cp --parents {} %s)" % (REPO, REPO, dst), shell=True, check=True)


def run_check(prop, repo, tier="quick"):
    env = dict(os.environ, VERIF_REPO=repo)
    t0 = time.time()
    p = subprocess.run([os.path.join(VERIF, "check"), prop, "--tier", tier, "--no-evidence"], env=env, stdout=subprocess.PIPE, stderr=subprocess.STDOUT, text=True)
    mechs = [l.strip() for l in p.stdout.splitlines() if l.strip().startswith("mechanism=")]
    return p.returncode, mechs, time.time() - t0, p.stdout


def main():
    args = sys.argv[1:]
    results = []
    if args and args[0] == "--seeded":
        ids = args[1:] or sorted(os.listdir(os.path.join(VERIF, "seeded")))
        for sid in ids:
            d = os.path.join(VERIF, "seeded", sid)
            if not os.path.exists(os.path.join(d, "patch.diff")):
                continue
            meta = json.load(open(os.path.join(d, "meta.json")))
            tmp = tempfile.mkdtemp(prefix="bvm-seeded-")
            try:
                copy_repo(tmp)
                ap = subprocess.run(["git", "apply", "--unsafe-paths", "--directory", tmp, os.path.join(d, "patch.diff")], cwd="/")
                if ap.returncode != 0:
                    print("%-28s PATCH DOES NOT APPLY to the current tree (re-make it against HEAD)" % sid, flush=True)
                    results.append((sid, "-", -1, 0, []))
                    continue
                for prop in meta.get("checks", [meta["property"]]):
                    rc, mechs, dt, out = run_check(prop, tmp)
                    results.append((sid, prop, rc, dt, mechs[:2]))
                    print("%-28s %s rc=%d %.0fs %s" % (sid, prop, rc, dt, "; ".join(m[:110] for m in mechs[:2])), flush=True)
                    # keep meta.json current (what DESIGN.md A.3 is generated from); a check that missed the change when it
                    # was first vetted stays listed under missed_at_first
                    was = meta.get("caught_by", {}).get(prop)
                    if was is False and rc == 1 and prop not in meta.get("missed_at_first", []):
                        meta.setdefault("missed_at_first", []).append(prop)
                    if rc in (0, 1):
                        meta.setdefault("caught_by", {})[prop] = rc == 1
                        meta.setdefault("mechanisms_reported", {})[prop] = [m[:160] for m in mechs[:3]]
                json.dump(meta, open(os.path.join(d, "meta.json"), "w"), indent=1)
            finally:
                shutil.rmtree(tmp, ignore_errors=True)
        # a seeded change counts as caught when at least one of the checks listed for it exits 1 (the property's own check is
        # listed first; the others are checks of neighbouring properties that were tried as well)
        by_seed = {}
        for sid, prop, rc, dt, mechs in results:
            by_seed.setdefault(sid, []).append(rc)
        expected = {}
        for sid in by_seed:
            try:
                r = json.load(open(os.path.join(VERIF, "seeded", sid, "meta.json"))).get("expected_not_caught")
            except Exception:
                r = None
            if r:
                expected[sid] = r
        for sid in [x for x, rcs in by_seed.items() if 1 not in rcs and x in expected]:
            print("  not caught, as recorded in its meta.json (outside what the property covers): %s" % sid)
        bad = [sid for sid, rcs in by_seed.items() if 1 not in rcs and sid not in expected]
        odd = [r for r in results if r[2] not in (0, 1)]
        print("seeded: %d changes, %d runs, %d changes not caught by any listed check%s" % (len(by_seed), len(results), len(bad), (", %d runs neither 0 nor 1" % len(odd)) if odd else ""))
        for sid in bad:
            print("  NOT CAUGHT:", sid)
        return 1 if bad or odd else 0
    muts = json.load(open(os.path.join(VERIF, "selftest", "mutants.json")))
    for m in muts:
        if args and not any(a in m["name"] for a in args):
            continue
        tmp = tempfile.mkdtemp(prefix="bvm-selftest-")
        try:
            copy_repo(tmp)
            for ed in m["edits"]:
                p = os.path.join(tmp, ed["file"])
                s = open(p).read()
                if s.count(ed["old"]) != 1:
                    print("%-40s EDIT DOES NOT APPLY (%d matches) in %s" % (m["name"], s.count(ed["old"]), ed["file"]))
                    results.append((m["name"], "-", -1, 0, []))
                    break
                open(p, "w").write(s.replace(ed["old"], ed["new"]))
            else:
                for prop in m["checks"]:
                    rc, mechs, dt, out = run_check(prop, tmp)
                    results.append((m["name"], prop, rc, dt, mechs[:2]))
                    print("%-40s %s rc=%d %.0fs %s" % (m["name"], prop, rc, dt, "; ".join(x[:110] for x in mechs[:2])), flush=True)
        finally:
            shutil.rmtree(tmp, ignore_errors=True)
    bad = [r for r in results if r[2] != 1]
    print("selftest: %d runs, %d not caught" % (len(results), len(bad)))
    for r in bad:
        print("  NOT CAUGHT:", r[0], r[1], "rc=%s" % r[2])
    return 1 if bad else 0


if __name__ == "__main__":
    sys.exit(main())
